"""C05 case runner: explorer leaves vs brute-force candidates, per instance."""
from __future__ import annotations

import itertools
import math

import torch

from vlib import envzoo, explore
from vlib.checker import features
from vlib.oracles import routing as R
from vlib.oracles import scheduling as S
from vlib.sweep import sig_of

ROUTING = {"tsp", "atsp", "cvrp", "cvrptw", "sdvrp", "svrp", "op", "pctsp", "spctsp", "pdp", "mtsp", "mtvrp", "mdcpdp"}
MAX_NODES = 250000


def tolr(x):
    return 1e-4 * max(1.0, abs(x))


def case(ctx, case):
    cfg, family, seed = case["cfg"], case.get("family", "gen"), case["s"]
    name = cfg["env"]
    if name in ROUTING:
        return routing(ctx, case, cfg, family, seed, name)
    return other(ctx, case, cfg, seed, name)


def routing(ctx, case, cfg, family, seed, name):
    R.TAU_LOAD = 1e-5
    env, O = envzoo.make(cfg)
    td_two = envzoo.instances(env, cfg, family, 2, seed)
    if case.get("env_n"):
        # the env that is explored was constructed for ANOTHER size than the instances have (size-agnostic envs)
        env, O = envzoo.make(dict(cfg, n=case["env_n"]))
        ctx.count("c05_other_size_envs")
    td_in = td_two[:1].clone()
    td0 = env.reset(td_in.clone())
    inst = O.extract(td_in, td0, 0, env)
    companion = None
    if case.get("companion"):
        # the second generated instance rides along at row 0 of every replay batch (other fleet size, other demands ...)
        companion = td_two[1:2].clone()
        ctx.count("c05_explored_in_company")
    leaves, complete, st = explore.explore(env, td_in, max_nodes=MAX_NODES, max_depth=O.step_bound(inst) + 2, companion=companion)
    ctx.count("c05_explorer_nodes", st["nodes"])
    if st["dead_ends"]:
        ctx.violation(sig_of(cfg, q="dead_end", family=family), f"explorer reached a state with no feasible action after {list(st['dead_ends'][0])}", dict(inst=inst, prefix=list(st["dead_ends"][0])))
    if not complete:
        if st.get("reason") == "max_depth":
            # every mask-admitted history is longer than the problem's step bound: nothing completes. If the problem has a
            # feasible solution at all, the mask hides all of them
            feas = next((seq for c, seq in explore.candidates(name, inst) if not O.violations(inst, seq)), None)
            ctx.evaluation()
            if feas is not None:
                ctx.violation(sig_of(cfg, q="feasible_unreachable", family=family, exact_fill=False, none_reachable=True),
                              f"no mask-admitted history completes within {O.step_bound(inst) + 2} steps although feasible solutions exist (e.g. {feas})", dict(inst=inst, candidate=feas, leaves=len(leaves)))
                return
        ctx.count("c05_instances_incomplete")
        ctx.note(f"explorer budget hit for {name} n={cfg['n']} ({st.get('reason')})")
        return
    ctx.count("c05_instances_fully_explored")
    ctx.count("c05_leaves", len(leaves))
    if family == "boundary":
        ctx.count("c05_boundary_instances")
    ctx.nontrivial_case(dict(i=inst, c=cfg))
    if name == "sdvrp" and family in ("boundary", "split"):
        # split deliveries: on exactly representable demands the set of complete mask-admitted histories must contain every
        # history of the documented delivery rule (independent exact-arithmetic enumeration), and reach its optimum
        ref, ok = explore.sdvrp_histories(inst)
        if ok and ref:
            lib = set(tuple(int(a) for a in acts) for acts, _ in leaves)
            ctx.evaluation()
            ctx.count("c05_sdvrp_split_instances")
            ctx.count("c05_sdvrp_split_histories", len(ref))
            if any(len(set(h) - {0}) < len([a for a in h if a != 0]) for h in ref):
                ctx.count("c05_sdvrp_instances_with_revisits")
            miss = sorted(ref - lib)
            if miss:
                ctx.violation(sig_of(cfg, q="feasible_unreachable", family=family, split=True), f"split-delivery history {list(miss[0])} (deliver as much as possible at every visit) is not reachable through the mask ({len(miss)} of {len(ref)} histories missing)",
                              dict(inst=inst, candidate=list(miss[0]), n_missing=len(miss)))
            else:
                best_ref = max(O.objective(inst, list(h)) for h in ref)
                best_lib = max(r for _, r in leaves)
                if best_lib < best_ref - tolr(best_ref):
                    ctx.violation(sig_of(cfg, q="optimum_unreachable", family=family, split=True), f"best reward reachable through the mask {best_lib} < optimum over split-delivery histories {best_ref}", dict(inst=inst))
    reach = {}
    for acts, r in leaves:
        c = explore.canon(name, acts, inst)
        if c not in reach or r > reach[c][1]:
            reach[c] = (acts, r)
    best_reach = max(r for _, r in leaves)
    lo, hi, lo_seq = -math.inf, -math.inf, None
    n_clean = n_amb = 0
    missing = []
    for c, seq in explore.candidates(name, inst):
        v = O.violations(inst, seq)
        if any(s_ == "violated" for _, s_, _ in v):
            continue
        obj = O.objective(inst, seq)
        if any(s_ == "ambiguous" for _, s_, _ in v):
            n_amb += 1
            ctx.ambiguous += 1
            hi = max(hi, obj)
            continue
        n_clean += 1
        ft = features(name, inst, seq)
        if ft.get("exact_fill"):
            ctx.count("c05_exact_fill_candidates")
        if name in ("pctsp", "spctsp") and inst.get("q"):
            tot = sum(int(round(inst["real_prize"][a] * inst["q"])) for a in set(seq) if a != 0)
            if tot == int(round(inst["required"] * inst["q"])):
                ctx.count("c05_exact_fill_candidates")
                ft["exact_prize"] = True
        ctx.evaluation()
        ctx.count("c05_candidates_checked")
        if obj > lo:
            lo, lo_seq = obj, seq
        hi = max(hi, obj)
        if c not in reach:
            missing.append((seq, ft))
    for seq, ft in missing[:3]:
        ctx.violation(sig_of(cfg, q="feasible_unreachable", family=family, exact_fill=bool(ft.get("exact_fill") or ft.get("exact_prize"))),
                      f"feasible solution {seq} (objective {O.objective(inst, seq):.5f}) is not reachable through the mask ({len(missing)} of {n_clean} feasible candidates missing; {len(reach)} reachable)",
                      dict(inst=inst, candidate=seq, n_missing=len(missing), n_feasible=n_clean, n_reachable=len(reach)))
    if n_clean:
        ctx.evaluation()
        ctx.count("c05_optimum_compared")
        if best_reach < lo - tolr(lo):
            ctx.violation(sig_of(cfg, q="optimum_unreachable", family=family), f"best reward reachable through the mask {best_reach} < brute-force optimum {lo} (solution {lo_seq})",
                          dict(inst=inst, optimum=lo_seq, best_reachable=best_reach))
        elif best_reach > hi + tolr(hi) and name not in ("sdvrp", "svrp"):
            ba = max(leaves, key=lambda x: x[1])[0]
            ctx.violation(sig_of(cfg, q="reachable_beats_optimum", family=family), f"a mask-reachable solution {list(ba)} has reward {best_reach} > brute-force optimum {hi} over all feasible candidates",
                          dict(inst=inst, actions=list(ba), reward=best_reach, optimum=hi))
    ctx.sample(dict(case=case, leaves=len(leaves), reachable_canonical=len(reach), feasible_candidates=n_clean, ambiguous=n_amb, best_reachable=best_reach, brute_force_optimum=lo))


def other(ctx, case, cfg, seed, name):
    env = envzoo.make_other(cfg)
    torch.manual_seed(seed)
    td_in = env.generator(batch_size=[2])[:1].clone()
    td0 = env.reset(td_in.clone())

    reward_fn = None
    if name == "ffsp":
        J = cfg["jobs"]

        def reward_fn(td, didx, pref):
            end = td["schedule"] + td["job_duration"].permute(0, 2, 1)
            mk = end[:, :, :J].amax(dim=(-1, -2))
            return [-float(mk[i]) for i in didx]

    sched_seen = None
    if name in ("fjsp", "jssp"):
        inst = S.JobShop.extract(td0, 0)
        bound = S.JobShop.step_bound(inst) + 2
        sched_seen = set()
        real_ops = [o for o in range(len(inst["pad"])) if not inst["pad"][o]]

        def reward_fn(td, didx, pref):
            # the library's own final state: (machine, start time) of every real operation of each finished history
            out = []
            for i in didx:
                ma = td["ma_assignment"][i]
                st = td["start_times"][i]
                sched_seen.add(tuple((int(ma[:, o].argmax()), float(st[o])) for o in real_ops))
                fin = td["finish_times"][i]
                out.append(-float(max(float(fin[o]) for o in real_ops)))
            return out

    elif name == "ffsp":
        inst = S.FlowShop.extract(td_in, 0, cfg["stages"], cfg["mas"])
        bound = S.FlowShop.step_bound(inst) + 2
    elif name == "smtwtp":
        inst = S.SMTWTP.extract(td0, 0)
        bound = cfg["n"] + 2
    elif name == "flp":
        inst = dict(locs=td_in["locs"][0].tolist(), k=int(td_in["to_choose"].reshape(1, -1)[0, 0]))
        bound = inst["k"] + 1
    elif name == "mcp":
        inst = dict(membership=[[int(x) for x in row if x > 0] for row in td_in["membership"][0].tolist()], weights=td_in["weights"][0].tolist(),
                    k=int(td_in["n_sets_to_choose"].reshape(1, -1)[0, 0]))
        bound = inst["k"] + 1
    else:
        raise KeyError(name)
    rule_bad = []
    if name == "ffsp":
        # monitor on every state the explorer steps into: the offered actions must be exactly those the environment documents
        # (a job is offered iff it sits in the current stage and is not being processed; idling is offered iff a job is still in
        # an earlier stage, or a job of this stage is still being processed, or the instance is done). The reachable optimum
        # alone cannot tell a further restriction of idling from the recorded non-delay finding.
        J_ = cfg["jobs"]
        o_step_ = env.step

        def step_(td):
            r = o_step_(td)
            nx = r["next"]
            try:
                loc, wt, stg = nx["job_location"][:, :J_], nx["job_wait_step"][:, :J_], nx["stage_idx"].reshape(-1, 1)
                dn = nx["done"].reshape(-1).bool()
                am = nx["action_mask"].bool()
                in_stage = loc == stg
                exp_jobs = in_stage & (wt == 0)
                exp_wait = (loc < stg).any(-1) | (in_stage & (wt > 0)).any(-1) | dn
                ctx.count("c05_ffsp_rule_states", int(am.shape[0]))
                live = ~dn
                if bool((am[:, :J_] != exp_jobs)[live].any()) or bool((am[:, -1] != exp_wait)[live].any()):
                    i = int(((am[:, :J_] != exp_jobs).any(-1) | (am[:, -1] != exp_wait))[live].nonzero()[0]) if live.any() else 0
                    rule_bad.append(dict(job_location=loc[live][i].tolist(), job_wait_step=wt[live][i].tolist(), stage=int(stg[live][i]), mask=am[live][i].int().tolist(),
                                         expected_jobs=exp_jobs[live][i].int().tolist(), expected_wait=bool(exp_wait[live][i])))
            except KeyError:
                pass
            return r

        env.step = step_
    leaves, complete, st = explore.explore(env, td_in, max_nodes=MAX_NODES, max_depth=bound, reward_fn=reward_fn)
    if name == "ffsp":
        env.step = o_step_
        ctx.evaluation()
        if rule_bad:
            w = rule_bad[0]
            ctx.violation(sig_of(cfg, q="offered_actions_differ_from_documented_rule"), f"a reachable state offers {w['mask']} (jobs.., idle) but the documented rule gives jobs {w['expected_jobs']} / idle {w['expected_wait']} "
                          f"(job stages {w['job_location']}, remaining processing {w['job_wait_step']}, machine's stage {w['stage']}); {len(rule_bad)} such step(s)", dict(inst=inst, state=w))
    ctx.count("c05_explorer_nodes", st["nodes"])
    if st["dead_ends"]:
        ctx.violation(sig_of(cfg, q="dead_end"), f"explorer reached a state with no feasible action after {list(st['dead_ends'][0])}", dict(inst=inst, prefix=list(st["dead_ends"][0])))
    if not complete:
        ctx.count("c05_instances_incomplete")
        ctx.note(f"explorer budget hit for {name} {cfg} ({st.get('reason')})")
        return
    ctx.count("c05_instances_fully_explored")
    ctx.count("c05_leaves", len(leaves))
    ctx.nontrivial_case(dict(i=inst, c=cfg))
    best_reach = max(r for _, r in leaves)
    best_acts = max(leaves, key=lambda x: x[1])[0]

    if name in ("fjsp", "jssp", "ffsp"):
        opt = explore.jobshop_opt(inst) if name != "ffsp" else explore.flowshop_opt(inst)
        ctx.evaluation()
        ctx.count("c05_optimum_compared")
        ctx.count("c05_candidates_checked")
        if abs(-best_reach - opt) > 1e-6:
            q = "optimum_unreachable" if -best_reach > opt else "reachable_beats_optimum"
            ctx.violation(sig_of(cfg, q=q), f"best makespan reachable through the mask {-best_reach} vs brute-force optimal makespan {opt}", dict(inst=inst, best_actions=list(best_acts)))
        n_semi = None
        if sched_seen is not None and not cfg.get("mask_no_ops", True):
            # with the wait action every semi-active schedule (each operation at max(job ready, machine ready) for some
            # order) is a solution of the problem and must be reachable; the env may reach more (deliberate delays)
            semi, comp = explore.jobshop_semi_active(inst)
            if comp:
                n_semi = len(semi)
                ctx.count("c05_semi_active_schedules", n_semi)
                miss = [x for x in semi if x not in sched_seen]
                ctx.evaluation(max(1, n_semi))
                ctx.count("c05_candidates_checked", n_semi)
                if miss:
                    ctx.violation(sig_of(cfg, q="feasible_unreachable", schedule="semi_active"),
                                  f"{len(miss)} of {n_semi} semi-active schedules are not reachable through the mask, e.g. (machine, start) per operation = {miss[0]}; {len(sched_seen)} distinct schedules reachable",
                                  dict(inst=inst, schedule=list(miss[0])))
        ctx.sample(dict(case=case, leaves=len(leaves), best_reachable_makespan=-best_reach, brute_force_optimum=opt, semi_active_schedules=n_semi, reachable_schedules=None if sched_seen is None else len(sched_seen)))
        return
    if name == "smtwtp":
        n = cfg["n"]
        reach = set(tuple(a) for a, _ in leaves)
        lo, lo_seq, missing = -math.inf, None, 0
        for p in itertools.permutations(range(1, n + 1)):
            ctx.evaluation()
            ctx.count("c05_candidates_checked")
            obj = S.SMTWTP.objective(inst, list(p))
            if obj > lo:
                lo, lo_seq = obj, p
            if p not in reach:
                missing += 1
                if missing <= 2:
                    ctx.violation(sig_of(cfg, q="feasible_unreachable"), f"job order {p} is not reachable through the mask", dict(inst=inst, candidate=list(p)))
    else:
        N = cfg["n"]
        k = inst["k"]
        reach = set(frozenset(a) for a, _ in leaves)
        lo, lo_seq, missing = -math.inf, None, 0
        for sub in itertools.combinations(range(N), k):
            ctx.evaluation()
            ctx.count("c05_candidates_checked")
            if name == "flp":
                L = inst["locs"]
                obj = -math.fsum(min(math.hypot(L[i][0] - L[c][0], L[i][1] - L[c][1]) for c in sub) for i in range(len(L)))
            else:
                cov = set(it for c in sub for it in inst["membership"][c])
                obj = math.fsum(inst["weights"][i - 1] for i in cov)
            if obj > lo:
                lo, lo_seq = obj, sub
            if frozenset(sub) not in reach:
                missing += 1
                if missing <= 2:
                    ctx.violation(sig_of(cfg, q="feasible_unreachable"), f"selection {sub} is not reachable through the mask", dict(inst=inst, candidate=list(sub)))
    ctx.evaluation()
    ctx.count("c05_optimum_compared")
    if abs(best_reach - lo) > tolr(lo):
        q = "optimum_unreachable" if best_reach < lo else "reachable_beats_optimum"
        ctx.violation(sig_of(cfg, q=q), f"best reward reachable through the mask {best_reach} vs brute-force optimum {lo} ({lo_seq})", dict(inst=inst, optimum=list(lo_seq), best_actions=list(best_acts)))
    ctx.sample(dict(case=case, leaves=len(leaves), best_reachable=best_reach, brute_force_optimum=lo))
