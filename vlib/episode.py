"""Drivers + recorder for constructive environments.

run_episode() drives the REAL env (reset/step/get_reward/check_solution_validity) with a
mask-confined chooser and records, at the client boundary, everything the oracles need:
mask before every action, action, done after every step, the final state, the reward.
Inputs are cloned before each call because the library mutates TensorDicts in place.
"""
from __future__ import annotations

import torch

CHOOSERS = [
    "uniform",
    "first_true",
    "last_true",
    "depot_whenever",
    "avoid_depot",
    "nearest",
    "farthest",
    "least_slack",
]


def row_done(td) -> torch.Tensor:
    d = td["done"]
    B = td.batch_size[0]
    return d.reshape(B, -1).all(-1)


def _scores(name: str, mask: torch.Tensor, td, gen: torch.Generator) -> torch.Tensor:
    B, N = mask.shape
    idx = torch.arange(N).float().expand(B, N)
    if name == "uniform":
        s = torch.rand(B, N, generator=gen)
    elif name == "first_true":
        s = -idx
    elif name == "last_true":
        s = idx.clone()
    elif name == "depot_whenever":
        s = torch.rand(B, N, generator=gen)
        s[:, 0] = 2.0
    elif name == "avoid_depot":
        s = torch.rand(B, N, generator=gen)
        s[:, 0] = -1.0
    elif name in ("nearest", "farthest"):
        s = torch.rand(B, N, generator=gen)
        try:
            locs = td["locs"]
            if locs.dim() == 3 and locs.shape[1] == N and "current_node" in td.keys():
                cur = td["current_node"].reshape(B, -1)[:, 0].long()
                cl = locs[torch.arange(B), cur]
                d = (locs - cl[:, None, :]).norm(dim=-1)
                s = -d if name == "nearest" else d
                s = s + 1e-6 * torch.rand(B, N, generator=gen)
        except Exception:
            pass
    elif name == "least_slack":
        # time-window problems: go to the admitted customer whose window closes soonest after the arrival the env's own
        # clock predicts (long no-wait chains that end right at a deadline); the depot only when nothing else is offered
        s = torch.rand(B, N, generator=gen)
        try:
            tw, locs = td["time_windows"], td["locs"]
            if tw.dim() == 3 and tw.shape[1] == N and locs.shape[1] == N and "current_time" in td.keys():
                cur = td["current_node"].reshape(B, -1)[:, 0].long()
                d = (locs - locs[torch.arange(B), cur][:, None, :]).norm(dim=-1)
                sp = td["speed"].reshape(B, -1)[:, :1] if "speed" in td.keys() else 1.0
                slack = tw[..., 1] - (td["current_time"].reshape(B, -1)[:, :1] + d / sp)
                slack = torch.where(torch.isfinite(slack), slack, torch.full_like(slack, 1e6))
                s = -slack + 1e-6 * torch.rand(B, N, generator=gen)
        except Exception:
            pass
        s[:, 0] = -1e9
    else:
        raise ValueError(name)
    return s


def choose(names: list[str], mask: torch.Tensor, td, gen: torch.Generator) -> torch.Tensor:
    """names: one chooser name per row. Always returns an action with mask True (if any)."""
    B, N = mask.shape
    out = torch.zeros(B, dtype=torch.long)
    for nm in set(names):
        rows = torch.tensor([i for i, x in enumerate(names) if x == nm], dtype=torch.long)
        s = _scores(nm, mask, td, gen)[rows]
        s = s.masked_fill(~mask[rows], float("-inf"))
        out[rows] = s.argmax(-1)
    return out


class Episode:
    def __init__(self):
        self.masks = []  # mask BEFORE action t, t = 0..T-1, each [B,N] bool ; plus final mask
        self.actions = []  # [B] long per step
        self.done_after = []  # [B] bool per step
        self.states = []  # optional per-step snapshots (dict of tensors) when requested
        self.td0 = None
        self.td_final = None
        self.reward = None
        self.reward_exc = None
        self.error = None  # exception raised by env.step (dead end assert etc.)
        self.B = 0

    def actions_tensor(self):
        return torch.stack(self.actions, 1) if self.actions else torch.zeros(self.B, 0, dtype=torch.long)

    def finish_step(self, b: int):
        """index t of the step after which row b was done for the first time (None if never)."""
        for t, d in enumerate(self.done_after):
            if bool(d[b]):
                return t
        return None

    def executed(self, b: int):
        """actions of row b up to and including its finishing step (padding stripped)."""
        f = self.finish_step(b)
        T = len(self.actions) if f is None else f + 1
        return [int(self.actions[t][b]) for t in range(T)]


def run_episode(env, td_in, chooser_names, gen, max_steps: int, scripted=None, snap_keys=None, get_reward=True,
                pad_chooser=None, stop_when_all_done=True, extra_pad_steps=0, clone_input=True, peek=None) -> Episode:
    """td_in: instance TensorDict (generator format). chooser_names: per-row chooser.
    scripted: optional [B][T] list of actions (rows may be shorter -> padding by pad_chooser/'first_true').
    """
    ep = Episode()
    # clone_input=False hands the caller's instance object itself to env.reset, as user code that evaluates one batch twice does
    td = env.reset(td_in.clone() if clone_input else td_in)
    B = td.batch_size[0]
    ep.B = B
    ep.td0 = td.clone()
    if "done" in td.keys():
        d0 = row_done(td)
    else:
        d0 = torch.zeros(B, dtype=torch.bool)
    ep.done0 = d0.clone()
    t = 0
    extra = 0
    while True:
        alld = bool(row_done(td).all()) if "done" in td.keys() else False
        if alld and stop_when_all_done:
            if extra >= extra_pad_steps:
                break
            extra += 1
        if t >= max_steps:
            break
        mask = td["action_mask"].clone()
        if mask.dim() > 2:
            mask = mask.reshape(B, -1)
        ep.masks.append(mask)
        if scripted is not None:
            a = torch.zeros(B, dtype=torch.long)
            names = list(chooser_names)
            need = []
            for b in range(B):
                if t < len(scripted[b]):
                    a[b] = scripted[b][t]
                else:
                    need.append(b)
            if need:
                pn = [(pad_chooser or "first_true")] * B
                ca = choose(pn, mask, td, gen)
                for b in need:
                    a[b] = ca[b]
        else:
            a = choose(chooser_names, mask, td, gen)
        if scripted is not None:
            bad = [b for b in range(B) if t < len(scripted[b]) and not bool(mask[b, int(a[b])])]
            if bad:
                # the recorded script asks for an action this context does not offer: never execute it (the env's
                # behaviour on infeasible actions is undefined, FFSP even loops forever); the monitor reports the mask
                ep.script_infeasible = (t, bad)
                break
        # a dead end (all-False row) is the monitor's business, not the driver's: stop stepping
        if (~mask.any(-1)).any():
            ep.dead_end_at = t
            ep.masks.pop()
            ep.final_mask = mask
            break
        ep.actions.append(a.clone())
        if peek is not None:
            # probe another admitted action from the SAME retained state and throw the result away (look-ahead / search code
            # does this in TorchRL mode, where step() must leave the caller's state alone)
            try:
                td.set("action", choose([peek] * B, mask, td, gen))
                env.step(td)
                ep.peeks = getattr(ep, "peeks", 0) + 1
            except Exception:
                pass
        td.set("action", a.clone())
        try:
            td = env.step(td)["next"]
        except Exception as e:  # e.g. FJSP's internal assert = dead end
            ep.error = e
            ep.actions.pop()
            ep.masks.pop()
            break
        ep.done_after.append(row_done(td).clone())
        if snap_keys:
            ep.states.append({k: td[k].clone() for k in snap_keys if k in td.keys()})
        t += 1
    if not hasattr(ep, "final_mask"):
        fm = td["action_mask"].clone()
        ep.final_mask = fm.reshape(B, -1) if fm.dim() > 2 else fm
    ep.td_final = td
    if get_reward and ep.error is None and ep.actions:
        try:
            ep.reward = env.get_reward(td.clone(), ep.actions_tensor().clone())
        except Exception as e:
            ep.reward_exc = e
        if ep.reward_exc is None:
            # asking again for the reward of the SAME state object (best-of-k selection ranks candidates with get_reward and the
            # policy then asks once more; users re-evaluate a returned state): the answer must not change
            try:
                same = td.clone()
                env.get_reward(same, ep.actions_tensor().clone())
                ep.reward_repeat = env.get_reward(same, ep.actions_tensor().clone())
            except Exception:
                ep.reward_repeat = None
            # the evaluators of rl4co.tasks.eval re-score returned actions on the RESET state of the instance (so that augmented
            # rollouts are costed on the original coordinates): recorded here, judged by the caller for envs whose reward is a
            # function of (instance, actions)
            try:
                ep.reward_on_reset = env.get_reward(ep.td0.clone(), ep.actions_tensor().clone())
            except Exception:
                ep.reward_on_reset = None
    return ep
