"""C15 — augmentation preserves costs; evaluation reports true best-of-k results."""
from __future__ import annotations

import math
import random

import torch

from vlib import envzoo, policies
from vlib.c12impl import strip
from vlib.sweep import sig_of


def coords(kind, B, n, g):
    if kind == "uniform":
        return torch.rand(B, n, 2, generator=g)
    if kind == "clustered":
        c = torch.rand(B, 3, 2, generator=g)
        idx = torch.randint(0, 3, (B, n), generator=g)
        x = c.gather(1, idx[..., None].expand(B, n, 2)) + 0.03 * torch.randn(B, n, 2, generator=g)
        return x.clamp(0, 1)
    if kind == "border":
        x = torch.rand(B, n, 2, generator=g)
        side = torch.randint(0, 4, (B, n), generator=g)
        x[..., 0] = torch.where(side == 0, torch.zeros_like(x[..., 0]), x[..., 0])
        x[..., 0] = torch.where(side == 1, torch.ones_like(x[..., 0]), x[..., 0])
        x[..., 1] = torch.where(side == 2, torch.zeros_like(x[..., 1]), x[..., 1])
        x[..., 1] = torch.where(side == 3, torch.ones_like(x[..., 1]), x[..., 1])
        return x
    raise KeyError(kind)


def pdist(x):
    return (x[:, :, None, :] - x[:, None, :, :]).double().norm(dim=-1)


def augment_case(ctx, case):
    from tensordict import TensorDict

    from rl4co.data.transforms import StateAugmentation

    B, n, A, fam, seed = case["B"], case["n"], case["A"], case["fam"], case["s"]
    g = torch.Generator().manual_seed(seed)
    xy = coords(case["coords"], B, n, g)
    td = TensorDict({"locs": xy.clone(), "other": torch.arange(B)}, batch_size=[B])
    fai = case.get("first_aug_identity", True)
    sig = dict(kind="augment", family=fam, first_aug_identity=fai)
    torch.manual_seed(seed)
    try:
        aug = StateAugmentation(num_augment=A, augment_fn=fam, first_aug_identity=fai)
        out = aug(td.clone())
    except Exception as e:
        ctx.evaluation()
        ctx.violation(dict(sig, q="raises", exc=type(e).__name__), f"StateAugmentation raised {type(e).__name__}: {str(e)[:160]}", dict(B=B, n=n, A=A))
        return
    ctx.count("c15_augment_calls")
    loc = out["locs"]
    if loc.shape != (A * B, n, 2):
        ctx.evaluation()
        ctx.violation(dict(sig, q="shape"), f"augmented locs {tuple(loc.shape)} for B={B}, A={A}", None)
        return
    if not torch.equal(out["other"], torch.arange(B).repeat(A)):
        ctx.violation(dict(sig, q="row_instance"), "non-coordinate features of the augmented batch are not copy a of instance r mod B", None)
        return
    if not torch.equal(td["locs"], xy):
        ctx.violation(dict(sig, q="input_mutated"), "augmentation modified its input", None)
        return
    D0 = pdist(xy)
    perm = torch.stack([torch.randperm(n, generator=g) for _ in range(B)])
    def tour(x):
        o = x.double().gather(1, perm[..., None].expand(B, n, 2))
        return (o - o.roll(-1, 1)).norm(dim=-1).sum(-1)
    c0 = tour(xy)
    for a in range(A):
        xa = loc[a * B : (a + 1) * B]
        ctx.evaluation(B)
        ctx.count("c15_copies_checked", B)
        d = (pdist(xa) - D0).abs().amax(dim=(1, 2))
        if bool((d > 1e-5).any()):
            b = int(d.argmax())
            ctx.violation(dict(sig, q="not_isometric", copy0=(a == 0)), f"augmented copy {a} of instance {b} is not distance-preserving (max pairwise distance error {float(d[b]):.3g})", dict(B=B, n=n, A=A, copy=a, orig=xy[b].tolist(), aug=xa[b].tolist()))
            return
        if bool(((tour(xa) - c0).abs() > 1e-5 * c0.clamp(min=1)).any()):
            ctx.violation(dict(sig, q="tour_cost_changed"), f"a fixed tour costs something else on augmented copy {a}", None)
            return
        if a == 0 and not fai and fam == "symmetric" and B * n >= 4 and torch.equal(xa, xy):
            ctx.violation(dict(sig, q="first_copy_identity_although_disabled"), "first_aug_identity=False but the first copy is the original instance", None)
            return
        if a == 0 and fai and not torch.equal(xa, xy):
            if bool(((xa - xy).abs() > 1e-6).any()):
                ctx.violation(dict(sig, q="first_copy_not_identity"), f"the first augmented copy is not the original instance (max coordinate difference {float((xa - xy).abs().max()):.3g})", None)
                return
        ctx.nontrivial_case(dict(x=xa[0].tolist(), a=a, f=fam))
    ctx.sample(dict(case=case))


def eval_case(ctx, case):
    from rl4co.tasks.eval import evaluate_policy

    name, n, N, bs, method, seed = case["env"], case["n"], case["N"], case["bs"], case["method"], case["s"]
    env, O, cfg = policies.env_for(name, n)
    pol = policies.make(case.get("policy", "am"), env, seed=seed % 5)
    torch.manual_seed(seed)
    td_all = env.generator(batch_size=[N])
    ds = env.dataset_cls(td_all.clone()) if hasattr(env, "dataset_cls") else None
    insts = [O.extract(td_all, env.reset(td_all.clone()), i, env) for i in range(N)]
    sig = dict(kind="eval", env=name, method=method)
    calls = []
    o_forward = pol.forward

    def forward(td, *a, **kw):
        out = o_forward(td, *a, **kw)
        calls.append(dict(B_rows=td.batch_size[0], actions=out["actions"].clone(), kw={k: v for k, v in kw.items() if k in ("decode_type", "num_starts", "select_best")}))
        return out

    pol.forward = forward
    kw = {}
    if method == "sampling":
        kw = dict(samples=case.get("k", 4), softmax_temp=1.0)
    A = case.get("A", 8)
    torch.manual_seed(seed + 1)
    try:
        res = evaluate_policy(env, pol, ds, method=method, batch_size=bs, auto_batch_size=False, num_augment=A, force_dihedral_8=("dihedral" in method), **kw)
    except Exception as e:
        ctx.evaluation()
        ctx.violation(dict(sig, q="raises", exc=type(e).__name__), f"evaluate_policy raised {type(e).__name__}: {str(e)[:200]}", dict(N=N, bs=bs, n=n))
        return
    finally:
        pol.forward = o_forward
    ctx.count("c15_eval_calls")
    rewards, actions = res["rewards"], res["actions"]
    if rewards.shape[0] != N or actions.shape[0] != N:
        ctx.evaluation()
        ctx.violation(dict(sig, q="rows"), f"{rewards.shape[0]} rewards / {actions.shape[0]} action rows for {N} instances", None)
        return
    tol = lambda x: 1e-4 * max(1.0, abs(x))
    # instance i was in loader batch i // bs at position i % bs; candidates = rows r of that call with r % B == pos
    off = 0
    ci = 0
    for start in range(0, N, bs):
        Bb = min(bs, N - start)
        if ci >= len(calls):
            ctx.violation(dict(sig, q="tap"), "fewer policy calls than loader batches", None)
            return
        call = calls[ci]
        ci += 1
        ca = call["actions"]
        rows = ca.shape[0]
        sel_best_inside = bool(call["kw"].get("select_best")) and rows == Bb
        for pos in range(Bb):
            i = start + pos
            ctx.evaluation()
            ctx.count("c15_eval_rows")
            acts = strip(actions[i].tolist(), name)
            v = [x for x in O.violations(insts[i], acts) if x[1] == "violated"]
            ref = O.objective(insts[i], acts)
            got = float(rewards[i])
            if abs(got - ref) > tol(ref):
                ctx.violation(dict(sig, q="reward_vs_actions"), f"instance {i}: reported reward {got} != objective {ref} of the returned actions on the original instance", dict(N=N, bs=bs, actions=acts, inst=insts[i]))
                return
            if v:
                ctx.violation(dict(sig, q="returned_infeasible", constraint=v[0][0]), f"instance {i}: the returned solution is infeasible on the original instance: {v[0]}", dict(actions=acts, inst=insts[i]))
                return
            if not sel_best_inside:
                cands = [strip(ca[r].tolist(), name) for r in range(pos, rows, Bb)]
                cvals = [O.objective(insts[i], c) for c in cands if not any(x[1] == "violated" for x in O.violations(insts[i], c))]
                ctx.count("c15_candidates", len(cands))
                if cvals:
                    best = max(cvals)
                    if got < best - tol(best):
                        ctx.violation(dict(sig, q="not_best_of_k"), f"instance {i}: reported reward {got} < best candidate rollout {best} of that instance recorded in the same call ({len(cands)} candidates)", dict(N=N, bs=bs))
                        return
                    if got > best + tol(best):
                        ctx.violation(dict(sig, q="better_than_all_candidates"), f"instance {i}: reported reward {got} > every candidate rollout of that instance ({best})", dict(N=N, bs=bs))
                        return
            ctx.nontrivial_case(dict(i=insts[i], a=acts, m=method))
    ctx.sample(dict(case=case, avg=float(res["avg_reward"])))
