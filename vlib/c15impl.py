"""C15 — augmentation preserves costs; evaluation reports true best-of-k results."""
from __future__ import annotations

import math
import random

import torch

from vlib import envzoo, policies
from vlib.c12impl import strip
from vlib.sweep import sig_of


def coords(kind, B, n, g):
    if kind == "uniform":
        return torch.rand(B, n, 2, generator=g)
    if kind == "clustered":
        c = torch.rand(B, 3, 2, generator=g)
        idx = torch.randint(0, 3, (B, n), generator=g)
        x = c.gather(1, idx[..., None].expand(B, n, 2)) + 0.03 * torch.randn(B, n, 2, generator=g)
        return x.clamp(0, 1)
    if kind == "border":
        x = torch.rand(B, n, 2, generator=g)
        side = torch.randint(0, 4, (B, n), generator=g)
        x[..., 0] = torch.where(side == 0, torch.zeros_like(x[..., 0]), x[..., 0])
        x[..., 0] = torch.where(side == 1, torch.ones_like(x[..., 0]), x[..., 0])
        x[..., 1] = torch.where(side == 2, torch.zeros_like(x[..., 1]), x[..., 1])
        x[..., 1] = torch.where(side == 3, torch.ones_like(x[..., 1]), x[..., 1])
        return x
    raise KeyError(kind)


def pdist(x):
    return (x[:, :, None, :] - x[:, None, :, :]).double().norm(dim=-1)


def augment_case(ctx, case):
    from tensordict import TensorDict

    from rl4co.data.transforms import StateAugmentation

    B, n, A, fam, seed = case["B"], case["n"], case["A"], case["fam"], case["s"]
    g = torch.Generator().manual_seed(seed)
    xy = coords(case["coords"], B, n, g)
    td = TensorDict({"locs": xy.clone(), "other": torch.arange(B)}, batch_size=[B])
    fai = case.get("first_aug_identity", True)
    sig = dict(kind="augment", family=fam, first_aug_identity=fai)
    torch.manual_seed(seed)
    for (B0, A0, fai0) in case.get("before") or []:
        # history in the same process: earlier augmentation calls producing the SAME number of rows with other factors / options
        try:
            StateAugmentation(num_augment=A0, augment_fn=fam, first_aug_identity=fai0)(TensorDict({"locs": coords(case["coords"], B0, n, g), "other": torch.arange(B0)}, batch_size=[B0]))
            ctx.count("c15_augment_history_calls")
            sig["history"] = True
        except Exception:
            pass
    try:
        aug = StateAugmentation(num_augment=A, augment_fn=fam, first_aug_identity=fai)
        out = aug(td.clone())
    except Exception as e:
        ctx.evaluation()
        ctx.violation(dict(sig, q="raises", exc=type(e).__name__), f"StateAugmentation raised {type(e).__name__}: {str(e)[:160]}", dict(B=B, n=n, A=A))
        return
    ctx.count("c15_augment_calls")
    loc = out["locs"]
    if loc.shape != (A * B, n, 2):
        ctx.evaluation()
        ctx.violation(dict(sig, q="shape"), f"augmented locs {tuple(loc.shape)} for B={B}, A={A}", None)
        return
    if not torch.equal(out["other"], torch.arange(B).repeat(A)):
        ctx.violation(dict(sig, q="row_instance"), "non-coordinate features of the augmented batch are not copy a of instance r mod B", None)
        return
    if not torch.equal(td["locs"], xy):
        ctx.violation(dict(sig, q="input_mutated"), "augmentation modified its input", None)
        return
    D0 = pdist(xy)
    perm = torch.stack([torch.randperm(n, generator=g) for _ in range(B)])
    def tour(x):
        o = x.double().gather(1, perm[..., None].expand(B, n, 2))
        return (o - o.roll(-1, 1)).norm(dim=-1).sum(-1)
    c0 = tour(xy)
    for a in range(A):
        xa = loc[a * B : (a + 1) * B]
        ctx.evaluation(B)
        ctx.count("c15_copies_checked", B)
        d = (pdist(xa) - D0).abs().amax(dim=(1, 2))
        if bool((d > 1e-5).any()):
            b = int(d.argmax())
            ctx.violation(dict(sig, q="not_isometric", copy0=(a == 0)), f"augmented copy {a} of instance {b} is not distance-preserving (max pairwise distance error {float(d[b]):.3g})", dict(B=B, n=n, A=A, copy=a, orig=xy[b].tolist(), aug=xa[b].tolist()))
            return
        if bool(((tour(xa) - c0).abs() > 1e-5 * c0.clamp(min=1)).any()):
            ctx.violation(dict(sig, q="tour_cost_changed"), f"a fixed tour costs something else on augmented copy {a}", None)
            return
        if a == 0 and not fai and fam == "symmetric" and B * n >= 4 and torch.equal(xa, xy):
            ctx.violation(dict(sig, q="first_copy_identity_although_disabled"), "first_aug_identity=False but the first copy is the original instance", None)
            return
        if a == 0 and fai and not torch.equal(xa, xy):
            if bool(((xa - xy).abs() > 1e-6).any()):
                ctx.violation(dict(sig, q="first_copy_not_identity"), f"the first augmented copy is not the original instance (max coordinate difference {float((xa - xy).abs().max()):.3g})", None)
                return
        ctx.nontrivial_case(dict(x=xa[0].tolist(), a=a, f=fam))
    ctx.sample(dict(case=case))


def eval_case(ctx, case):
    from rl4co.tasks.eval import evaluate_policy

    name, n, N, bs, method, seed = case["env"], case["n"], case["N"], case["bs"], case["method"], case["s"]
    extra = case.get("extra") or {}
    env, O, cfg = policies.env_for(name, n, **extra)
    pol = policies.make(case.get("policy", "am"), env, seed=seed % 5)
    torch.manual_seed(seed)
    td_all = env.generator(batch_size=[N])
    ds = env.dataset_cls(td_all.clone()) if hasattr(env, "dataset_cls") else None
    insts = [O.extract(td_all, env.reset(td_all.clone()), i, env) for i in range(N)]
    sig = dict(kind="eval", env=name, method=method, **{k: v for k, v in extra.items() if k in ("cost_type", "start_depot", "reward_mode", "problem_mode", "preset")})
    calls = []
    o_forward = pol.forward

    def forward(td, *a, **kw):
        out = o_forward(td, *a, **kw)
        calls.append(dict(B_rows=td.batch_size[0], actions=out["actions"].clone(), kw={k: v for k, v in kw.items() if k in ("decode_type", "num_starts", "select_best")}))
        return out

    pol.forward = forward
    kw = {}
    if method == "sampling":
        kw = dict(samples=case.get("k", 4), softmax_temp=1.0)
    A = case.get("A", 8)
    torch.manual_seed(seed + 1)
    try:
        res = evaluate_policy(env, pol, ds, method=method, batch_size=bs, auto_batch_size=False, num_augment=A, force_dihedral_8=("dihedral" in method), **kw)
    except Exception as e:
        ctx.evaluation()
        ctx.violation(dict(sig, q="raises", exc=type(e).__name__), f"evaluate_policy raised {type(e).__name__}: {str(e)[:200]}", dict(N=N, bs=bs, n=n))
        return
    finally:
        pol.forward = o_forward
    ctx.count("c15_eval_calls")
    rewards, actions = res["rewards"], res["actions"]
    all_cands = None
    if method == "sampling":
        # the selection happens inside the policy call: replay the same random stream with select_best=False to see every sample
        calls_best = list(calls)
        calls.clear()
        pol.forward = forward
        torch.manual_seed(seed + 1)
        try:
            evaluate_policy(env, pol, ds, method=method, batch_size=bs, auto_batch_size=False, select_best=False, **kw)
        finally:
            pol.forward = o_forward
        all_cands = list(calls)
        calls[:] = calls_best
    if rewards.shape[0] != N or actions.shape[0] != N:
        ctx.evaluation()
        ctx.violation(dict(sig, q="rows"), f"{rewards.shape[0]} rewards / {actions.shape[0]} action rows for {N} instances", None)
        return
    tol = lambda x: 1e-4 * max(1.0, abs(x))
    # instance i was in loader batch i // bs at position i % bs; candidates = rows r of that call with r % B == pos
    off = 0
    ci = 0
    for start in range(0, N, bs):
        Bb = min(bs, N - start)
        if ci >= len(calls):
            ctx.violation(dict(sig, q="tap"), "fewer policy calls than loader batches", None)
            return
        call = calls[ci]
        ci += 1
        ca = call["actions"]
        rows = ca.shape[0]
        sel_best_inside = bool(call["kw"].get("select_best")) and rows == Bb
        for pos in range(Bb):
            i = start + pos
            ctx.evaluation()
            ctx.count("c15_eval_rows")
            acts = strip(actions[i].tolist(), name)
            v = [x for x in O.violations(insts[i], acts) if x[1] == "violated"]
            ref = O.objective(insts[i], acts)
            got = float(rewards[i])
            if abs(got - ref) > tol(ref):
                # mechanism feature: is the reported number what env.get_reward returns for the RESET state of the instance and these
                # actions (the evaluators re-score rollouts on the reset state; an env whose reward lives in the rollout state then reports
                # the value of an unstarted episode)?
                mech = "other"
                try:
                    r0 = float(env.get_reward(env.reset(td_all[i : i + 1].clone()), actions[i : i + 1].clone()).reshape(-1)[0])
                    if abs(r0 - got) <= tol(got):
                        mech = "value_of_reset_state"
                except Exception:
                    pass
                ctx.violation(dict(sig, q="reward_vs_actions", mech=mech), f"instance {i}: reported reward {got} != objective {ref} of the returned actions on the original instance", dict(N=N, bs=bs, actions=acts, inst=insts[i]))
                return
            if v:
                ctx.violation(dict(sig, q="returned_infeasible", constraint=v[0][0]), f"instance {i}: the returned solution is infeasible on the original instance: {v[0]}", dict(actions=acts, inst=insts[i]))
                return
            if sel_best_inside and all_cands is not None and ci - 1 < len(all_cands):
                ca2 = all_cands[ci - 1]["actions"]
                cands = [strip(ca2[r].tolist(), name) for r in range(pos, ca2.shape[0], Bb)]
                if any(c == acts for c in cands):  # same random stream: the returned rollout must be one of them
                    cvals = [O.objective(insts[i], c) for c in cands if not any(x[1] == "violated" for x in O.violations(insts[i], c))]
                    ctx.count("c15_candidates", len(cands))
                    ctx.count("c15_sampling_replays")
                    if cvals and got < max(cvals) - tol(max(cvals)):
                        ctx.violation(dict(sig, q="not_best_of_k"), f"instance {i}: sampling with select_best reported {got}, the best of its own {len(cands)} samples (same random stream) is {max(cvals)}", dict(N=N, bs=bs))
                        return
            if not sel_best_inside:
                cands = [strip(ca[r].tolist(), name) for r in range(pos, rows, Bb)]
                cvals = [O.objective(insts[i], c) for c in cands if not any(x[1] == "violated" for x in O.violations(insts[i], c))]
                ctx.count("c15_candidates", len(cands))
                if "multistart" in method and name in ("tsp", "cvrp", "sdvrp") and not extra:
                    # with num_starts = number of nodes / customers every possible first move must be among the candidates (otherwise the
                    # plain greedy rollout may be missing and best-of-k can be worse than greedy)
                    firsts = set(c[0] for c in cands if c)
                    ctx.count("c15_candidate_start_sets")
                    if len(firsts) < n:
                        ctx.violation(dict(sig, q="candidate_starts_incomplete"), f"instance {i}: the {len(cands)} candidate rollouts start from {sorted(firsts)} only ({n} first moves exist and were requested)", dict(N=N, bs=bs, n=n))
                        return
                if cvals:
                    best = max(cvals)
                    if got < best - tol(best):
                        ctx.violation(dict(sig, q="not_best_of_k"), f"instance {i}: reported reward {got} < best candidate rollout {best} of that instance recorded in the same call ({len(cands)} candidates)", dict(N=N, bs=bs))
                        return
                    if got > best + tol(best):
                        ctx.violation(dict(sig, q="better_than_all_candidates"), f"instance {i}: reported reward {got} > every candidate rollout of that instance ({best})", dict(N=N, bs=bs))
                        return
            ctx.nontrivial_case(dict(i=insts[i], a=acts, m=method))
    if "multistart" in method and name in ("tsp", "cvrp", "sdvrp") and not extra:
        # num_starts = number of customers / nodes: every first move is forced once, so the plain greedy rollout (whatever its first
        # move) is among the candidates and best-of-k can never be worse than it
        try:
            rg = evaluate_policy(env, pol, ds, method="greedy", batch_size=bs, auto_batch_size=False)["rewards"]
        except Exception:
            rg = None
        if rg is not None and rg.shape[0] == N:
            ctx.count("c15_never_worse_than_greedy_checks", N)
            for i in range(N):
                if float(rewards[i]) < float(rg[i]) - tol(float(rg[i])):
                    ctx.violation(dict(sig, q="worse_than_greedy"), f"instance {i}: {method} reports {float(rewards[i])}, plain greedy decoding reaches {float(rg[i])} (its rollout should be among the {n} forced starts)", dict(N=N, bs=bs, n=n))
                    return
    ctx.sample(dict(case=case, avg=float(res["avg_reward"])))



def model_val_case(ctx, case):
    """POMO / SymNCO validation step: the per-instance metrics (max over starts, max over augmentations, best actions) must
    be the maxima over THAT instance's rollouts, re-scored on the original instance."""
    import rl4co.models as M

    kind, name, n, B, seed = case["model"], case["env"], case["n"], case["B"], case["s"]
    env, O, cfg = policies.env_for(name, n)
    torch.manual_seed(seed)
    S_, A_ = case["S"], case["A"]
    kw = dict(batch_size=B, train_data_size=4, val_data_size=4, test_data_size=4)
    if kind == "pomo":
        model = M.POMO(env, policies.make("am_instnorm", env, seed=seed % 5), num_starts=S_, num_augment=A_, **kw)
    else:
        model = M.SymNCO(env, policies.make("symnco", env, seed=seed % 5), num_starts=S_, num_augment=A_, **kw)
    model.eval()
    td_in = env.generator(batch_size=[B])
    insts = [O.extract(td_in, env.reset(td_in.clone()), b, env) for b in range(B)]
    cap = {}
    o_log = model.log_metrics

    def log_metrics(out, phase, dataloader_idx=None):
        cap["out"] = out
        return {}

    model.log_metrics = log_metrics
    pol = model.policy
    o_forward = pol.forward
    taps = {}

    def forward(td, *a, **k2):
        out = o_forward(td, *a, **k2)
        taps["actions"] = out["actions"].clone()
        return out

    pol.forward = forward
    sig = dict(kind="model_val", model=kind, S_gt_1=S_ > 1, A_gt_1=A_ > 1)
    try:
        with torch.no_grad():
            model.shared_step(td_in.clone(), 0, phase=case.get("phase", "val"))
    except Exception as e:
        ctx.evaluation()
        ctx.violation(dict(sig, q="raises", exc=type(e).__name__), f"{kind}.shared_step(val) raised {type(e).__name__}: {str(e)[:200]}", dict(S=S_, A=A_, B=B))
        return
    finally:
        pol.forward = o_forward
        model.log_metrics = o_log
    ctx.count("c15_model_val_calls")
    out = cap["out"]
    acts = taps["actions"]
    R = acts.shape[0]
    tol = lambda x: 1e-4 * max(1.0, abs(x))
    vals = [[] for _ in range(B)]
    for r in range(R):
        vals[r % B].append(O.objective(insts[r % B], strip(acts[r].tolist(), name)))
    best = [max(v) for v in vals]
    key = "max_aug_reward" if A_ > 1 else ("max_reward" if S_ > 1 else "reward")
    got = out.get(key)
    for b in range(B):
        ctx.evaluation()
        ctx.count("c15_model_val_rows")
    if got is None or got.numel() != B:
        ctx.violation(dict(sig, q="metric_shape", key=key), f"{key} has shape {None if got is None else tuple(got.shape)} for {B} instances (one best-of-k value per instance expected)", dict(S=S_, A=A_, B=B))
        return
    g = got.reshape(B)
    for b in range(B):
        if abs(float(g[b]) - best[b]) > tol(best[b]):
            ctx.violation(dict(sig, q="not_best_of_k", key=key), f"instance {b}: reported {key} {float(g[b])} != best of its own {len(vals[b])} rollouts {best[b]}", dict(S=S_, A=A_, B=B))
            return
    if S_ > 1 and out.get("max_reward") is not None:
        mr = out["max_reward"]
        want_shape = (B,) if A_ <= 1 else (B, A_)
        if tuple(mr.shape) not in (want_shape, (B, 1) if A_ <= 1 else want_shape, (B, max(A_, 1))):
            ctx.violation(dict(sig, q="metric_shape", key="max_reward"), f"max_reward has shape {tuple(mr.shape)}, expected one value per (instance, augmentation): {want_shape}", dict(S=S_, A=A_, B=B))
            return
    ba = out.get("best_aug_actions") if A_ > 1 else out.get("best_multistart_actions")
    if ba is not None and ba.dim() == 3 and ba.shape[1] == 1:
        ba = ba.squeeze(1)  # num_augment = 1: one (trivial) augmentation group per instance
    if ba is not None and not (ba.dim() == 2 and ba.shape[0] == B):
        # one best action sequence per instance is what "best" means here; anything else cannot be "exactly that rollout's actions"
        ctx.violation(dict(sig, q="best_actions_shape"), f"the reported best actions have shape {tuple(ba.shape)} for {B} instances (one sequence per instance expected)", dict(S=S_, A=A_, B=B))
        return
    bm = out.get("best_multistart_actions") if (S_ > 1 and A_ > 1) else None
    if bm is not None:
        # with both factors: one best-start sequence per (instance, augmentation), and it must be that group's best rollout
        if not (bm.dim() == 3 and tuple(bm.shape[:2]) == (B, A_)):
            ctx.violation(dict(sig, q="best_actions_shape", key="best_multistart_actions"), f"best_multistart_actions has shape {tuple(bm.shape)}, expected one sequence per (instance, augmentation): ({B}, {A_}, len)", dict(S=S_, A=A_, B=B))
            return
        ctx.count("c15_best_start_groups", B * A_)
        for b in range(B):
            for a in range(A_):
                grp = [O.objective(insts[b], strip(acts[s_ * (A_ * B) + a * B + b].tolist(), name)) for s_ in range(S_)]
                v = O.objective(insts[b], strip(bm[b, a].tolist(), name))
                if abs(v - max(grp)) > tol(max(grp)):
                    ctx.violation(dict(sig, q="best_start_actions"), f"instance {b}, augmentation {a}: the reported best-start actions have objective {v}, the best of that group's {S_} starts has {max(grp)}", dict(S=S_, A=A_, B=B))
                    return
    if ba is not None and ba.shape[0] == B and ba.dim() == 2:
        for b in range(B):
            v = O.objective(insts[b], strip(ba[b].tolist(), name))
            if abs(v - best[b]) > tol(best[b]):
                ctx.violation(dict(sig, q="best_actions"), f"instance {b}: the reported best actions have objective {v}, the best rollout of that instance has {best[b]}", dict(S=S_, A=A_, B=B))
                return
    ctx.nontrivial_case(dict(c=case))


def evaluator_reuse_case(ctx, case):
    """One evaluator OBJECT used for several data sets in a row (a test file after a validation file): every call must report
    exactly the instances of ITS data set, row i = instance i, reward = objective of the returned actions."""
    from torch.utils.data import DataLoader

    import rl4co.tasks.eval as EV

    name, n, seed, cls_name = case["env"], case["n"], case["s"], case["evaluator"]
    env, O, cfg = policies.env_for(name, n)
    pol = policies.make("am", env, seed=seed % 5)
    kw = dict(GreedyEval={}, AugmentationEval=dict(num_augment=case.get("A", 4)), SamplingEval=dict(samples=3, softmax_temp=1.0),
              GreedyMultiStartEval=dict(num_starts=3), GreedyMultiStartAugmentEval=dict(num_starts=3, num_augment=case.get("A", 4)))[cls_name]
    ev = getattr(EV, cls_name)(env, progress=False, **kw)
    sig = dict(kind="evaluator_reuse", env=name, evaluator=cls_name)
    tol = lambda x: 1e-4 * max(1.0, abs(x))
    torch.manual_seed(seed)
    for call, N in enumerate(case["sizes"]):
        td_all = env.generator(batch_size=[N])
        ds = env.dataset_cls(td_all.clone())
        dl = DataLoader(ds, batch_size=case["bs"], collate_fn=ds.collate_fn)
        try:
            res = ev(pol, dl)
        except Exception as e:
            ctx.evaluation()
            ctx.violation(dict(sig, q="raises", exc=type(e).__name__, call=min(call, 1)), f"{cls_name} call {call} raised {type(e).__name__}: {str(e)[:200]}", None)
            return
        ctx.count("c15_evaluator_reuse_calls")
        rewards, actions = res["rewards"], res["actions"]
        ctx.evaluation()
        if rewards.shape[0] != N or actions.shape[0] != N:
            ctx.violation(dict(sig, q="rows", call=min(call, 1)), f"call {call} on a data set of {N} instances returned {rewards.shape[0]} rewards / {actions.shape[0]} action rows", dict(sizes=case["sizes"]))
            return
        insts = [O.extract(td_all, env.reset(td_all.clone()), i, env) for i in range(N)]
        for i in range(N):
            ctx.evaluation()
            ctx.count("c15_eval_rows")
            acts = strip(actions[i].tolist(), name)
            ref = O.objective(insts[i], acts)
            if abs(float(rewards[i]) - ref) > tol(ref) or any(x[1] == "violated" for x in O.violations(insts[i], acts)):
                ctx.violation(dict(sig, q="reward_vs_actions", call=min(call, 1)), f"call {call}, instance {i}: reported reward {float(rewards[i])} vs objective {ref} of the returned actions on that instance", dict(sizes=case["sizes"]))
                return
        if abs(float(res["avg_reward"]) - float(rewards.mean())) > 1e-5 * max(1.0, abs(float(rewards.mean()))):
            ctx.violation(dict(sig, q="avg_reward", call=min(call, 1)), f"call {call}: avg_reward {float(res['avg_reward'])} != mean of the per-instance rewards {float(rewards.mean())}", None)
            return
        ctx.nontrivial_case(dict(c=case, call=call))
