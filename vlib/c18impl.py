"""C18 — generators: documented keys/shapes/ranges; every generated instance is solvable."""
from __future__ import annotations

import math

import torch

from vlib import envzoo
from vlib.episode import run_episode
from vlib.sweep import other_choosers, sig_of

ROUTING = {"tsp", "atsp", "cvrp", "cvrptw", "sdvrp", "svrp", "op", "pctsp", "spctsp", "pdp", "mtsp", "mdcpdp", "mtvrp"}


class P:
    """predicate collector: one violation per (env, predicate) mechanism."""

    def __init__(self, ctx, cfg, extra_sig=None):
        self.ctx, self.cfg, self.extra = ctx, cfg, extra_sig or {}

    def check(self, name, ok, msg, detail=None):
        self.ctx.evaluation()
        self.ctx.count("c18_predicates")
        ok = bool(ok)
        if not ok:
            self.ctx.violation(sig_of(self.cfg, predicate=name, **self.extra), f"generated batch violates '{name}': {msg}", detail)
        return ok


def in_range(t, lo, hi, eps=1e-6):
    return bool(((t >= lo - eps) & (t <= hi + eps)).all())


def shape_is(t, *shape):
    return tuple(t.shape) == tuple(shape)


def flags_of_preset(p):
    p = p.lower()
    if p in ("all", "single_feat", "single_feat_otw"):
        return None
    o = p.startswith("o")
    suf = p.split("vrp", 1)[1] if "vrp" in p else ""
    return dict(O=o, B="b" in suf, L="l" in suf.replace("tw", ""), TW=suf.endswith("tw"))


def predicates(ctx, cfg, env, td, B):
    name, n = cfg["env"], cfg["n"]
    if name in ("pdp", "mdcpdp"):
        n += n % 2  # documented: an odd number of locations is rounded up to the next even number (pairs)
    g = env.generator
    p = P(ctx, cfg)
    keys = set(str(k) for k in td.keys())

    def need(*ks):
        miss = [k for k in ks if k not in keys]
        return p.check("documented_keys", not miss, f"missing keys {miss} (have {sorted(keys)})")

    if name in ("tsp",):
        if need("locs"):
            p.check("shape", shape_is(td["locs"], B, n, 2), f"locs {tuple(td['locs'].shape)}")
            p.check("coords_in_bounds", in_range(td["locs"], g.min_loc, g.max_loc), "coordinates outside [min_loc, max_loc]")
    elif name == "atsp":
        if need("cost_matrix"):
            c = td["cost_matrix"]
            p.check("shape", shape_is(c, B, n, n), f"cost_matrix {tuple(c.shape)}")
            p.check("diag_zero", bool((torch.diagonal(c, dim1=-2, dim2=-1) == 0).all()), "non-zero diagonal")
            p.check("dist_in_bounds", in_range(c, 0.0, g.max_dist), "distance outside [0, max_dist]")
            off = ~torch.eye(n, dtype=torch.bool).expand(B, n, n)
            p.check("dist_in_documented_range", in_range(c[off], g.min_dist, g.max_dist, eps=1e-5), f"off-diagonal distance outside [min_dist, max_dist] = [{g.min_dist}, {g.max_dist}]: {float(c[off].min()):.4f}..{float(c[off].max()):.4f}")
            if g.tmat_class:
                viol = (c[:, :, None, :] > c[:, :, :, None] + c[:, None, :, :] + 1e-6)  # c[i,k] > c[i,j] + c[j,k]
                p.check("triangle_inequality", not bool(viol.any()), "c[i,k] > c[i,j] + c[j,k] for some triple although tmat_class=True")
    elif name in ("cvrp", "sdvrp", "cvrptw"):
        if need("locs", "depot", "demand", "capacity"):
            sc = g.max_time if (name == "cvrptw" and getattr(g, "scale", False)) else 1.0
            p.check("shape", shape_is(td["locs"], B, n, 2) and shape_is(td["depot"], B, 2) and shape_is(td["demand"], B, n), "locs/depot/demand shapes")
            p.check("coords_in_bounds", in_range(td["locs"] * sc, g.min_loc, g.max_loc) and in_range(td["depot"] * sc, g.min_loc, g.max_loc), "coordinates outside bounds")
            cap = td["capacity"].reshape(B, -1)[:, :1]
            d = td["demand"] * cap
            p.check("demand_integer", bool(((d - d.round()).abs() < 1e-3).all()), "demand x capacity is not an integer")
            p.check("demand_in_range", in_range(d.round(), g.min_demand, g.max_demand), f"integer demand outside [{g.min_demand},{g.max_demand}]: {d.min().item()}..{d.max().item()}")
            p.check("demand_le_capacity", bool((td["demand"] <= 1.0 + 1e-6).all()), "a single demand exceeds the vehicle capacity")
            from rl4co.envs.routing.cvrp.generator import CAPACITIES

            want = CAPACITIES.get(n, CAPACITIES[min(CAPACITIES.keys(), key=lambda x: abs(x - n))]) if "capacity" not in cfg else cfg["capacity"]
            p.check("capacity_table", bool((cap == want).all()), f"capacity {cap.flatten()[0].item()} != documented {want}")
        if name == "cvrptw" and need("time_windows", "durations"):
            tw, du = td["time_windows"], td["durations"]
            p.check("shape_tw", shape_is(tw, B, n + 1, 2) and shape_is(du, B, n + 1), "time_windows/durations shapes")
            mt = g.max_time / sc
            d0 = (torch.cat((td["depot"][:, None], td["locs"]), 1) - td["depot"][:, None]).norm(dim=-1)
            p.check("tw_ordered", bool((tw[..., 0] < tw[..., 1]).all()), "window start >= end")
            p.check("tw_depot", bool((tw[:, 0, 0] == 0).all()) and bool(((tw[:, 0, 1] - mt).abs() < 1e-5).all()), "depot window != [0, max_time]")
            p.check("tw_reachable", bool((tw[:, 1:, 1] >= d0[:, 1:] - 1.0 / sc - 1e-5).all()), "a window closes before the customer can be reached from the depot")
            p.check("tw_start_floor", bool((tw[:, 1:, 0] >= d0[:, 1:] - 1.0 / sc - 1e-5).all()), "window start below the travel time from the depot (documented lower bound)")
            p.check("tw_return", bool((tw[:, 1:, 0] + d0[:, 1:] + du[:, 1:] <= mt + 1e-4).all()), "no time left to serve and return to the depot (start + distance + duration > max_time)")
            p.check("tw_end_return", bool((tw[:, 1:, 1] + d0[:, 1:] + du[:, 1:] <= mt + 1.0 / sc + 1e-4).all()), "window end leaves no time to return to the depot")
            p.check("durations_nonneg", bool((du >= 0).all()) and bool((du[:, 0] == 0).all()), "negative duration / depot duration")
    elif name == "op":
        if need("locs", "depot", "prize", "max_length"):
            p.check("shape", shape_is(td["locs"], B, n, 2) and shape_is(td["prize"], B, n) and td["max_length"].shape[0] == B, "shapes")
            p.check("coords_in_bounds", in_range(td["locs"], g.min_loc, g.max_loc) and in_range(td["depot"], g.min_loc, g.max_loc), "coordinates outside bounds")
            p.check("prize_range", in_range(td["prize"], 0.01, 1.0), "prize outside (0, 1]")
            if cfg.get("prize_type", "dist") == "const":
                p.check("prize_const", bool((td["prize"] == 1).all()), "const prizes are not 1")
    elif name in ("pctsp", "spctsp"):
        if need("locs", "depot", "penalty", "deterministic_prize", "stochastic_prize"):
            p.check("shape", shape_is(td["locs"], B, n, 2) and shape_is(td["penalty"], B, n) and shape_is(td["deterministic_prize"], B, n), "shapes")
            p.check("coords_in_bounds", in_range(td["locs"], g.min_loc, g.max_loc) and in_range(td["depot"], g.min_loc, g.max_loc), "coordinates outside bounds")
            p.check("nonneg", bool((td["penalty"] >= 0).all()) and bool((td["deterministic_prize"] >= 0).all()) and bool((td["stochastic_prize"] >= 0).all()), "negative prize/penalty")
            p.check("stochastic_le_2x", bool((td["stochastic_prize"] <= 2 * td["deterministic_prize"] + 1e-6).all()), "stochastic prize > 2 x expected prize")
    elif name == "pdp":
        if need("locs", "depot"):
            p.check("shape", shape_is(td["locs"], B, n, 2) and shape_is(td["depot"], B, 2), "shapes")
            p.check("even_pairs", td["locs"].shape[1] % 2 == 0 and g.num_loc % 2 == 0, f"odd number of pickup/delivery nodes ({td['locs'].shape[1]} generated, generator.num_loc={g.num_loc})")
            p.check("coords_in_bounds", in_range(td["locs"], g.min_loc, g.max_loc) and in_range(td["depot"], g.min_loc, g.max_loc), "coordinates outside bounds")
    elif name == "mtsp":
        if need("locs", "num_agents"):
            p.check("shape", shape_is(td["locs"], B, n, 2) and shape_is(td["num_agents"], B), "shapes")
            p.check("agents_in_range", in_range(td["num_agents"], g.min_num_agents, g.max_num_agents), "num_agents outside range")
            p.check("coords_in_bounds", in_range(td["locs"], g.min_loc, g.max_loc), "coordinates outside bounds")
    elif name == "svrp":
        if need("locs", "depot", "techs", "skills"):
            p.check("shape", shape_is(td["locs"], B, n, 2) and td["techs"].shape[0] == B and shape_is(td["skills"], B, n, 1), "shapes")
            p.check("coords_in_bounds", in_range(td["locs"], g.min_loc, g.max_loc) and in_range(td["depot"], g.min_loc, g.max_loc), "coordinates outside bounds")
            p.check("techs_sorted", bool((td["techs"][:, 1:] >= td["techs"][:, :-1]).all()), "technicians not sorted by skill")
            p.check("techs_in_range", in_range(td["techs"], g.min_skill, g.max_skill), "technician skill outside range")
            p.check("every_customer_servable", bool((td["skills"].squeeze(-1) <= td["techs"].max(dim=1).values).all()), "a customer needs more skill than the best technician has")
    elif name == "mdcpdp":
        if need("locs", "depot", "capacity", "lateness_weight"):
            nd = cfg.get("depots", 2)
            p.check("shape", shape_is(td["locs"], B, n, 2) and shape_is(td["depot"], B, nd, 2) and shape_is(td["capacity"], B, nd), f"shapes locs {tuple(td['locs'].shape)} depot {tuple(td['depot'].shape)} capacity {tuple(td['capacity'].shape)}")
            p.check("even_pairs", td["locs"].shape[1] % 2 == 0 and g.num_loc % 2 == 0, f"odd number of pickup/delivery nodes ({td['locs'].shape[1]} generated, generator.num_loc={g.num_loc})")
            p.check("capacity_in_range", in_range(td["capacity"], g.min_capacity, g.max_capacity), "capacity outside range")
            p.check("lateness_in_range", in_range(td["lateness_weight"], g.min_lateness_weight, g.max_lateness_weight), "lateness weight outside range")
    elif name == "mtvrp":
        if need("locs", "demand_linehaul", "demand_backhaul", "distance_limit", "time_windows", "service_time", "vehicle_capacity", "open_route", "speed"):
            locs = td["locs"]
            p.check("shape", shape_is(locs, B, n + 1, 2) and shape_is(td["demand_linehaul"], B, n + 1) and shape_is(td["demand_backhaul"], B, n + 1) and shape_is(td["time_windows"], B, n + 1, 2), "shapes")
            p.check("coords_in_bounds", in_range(locs, g.min_loc, g.max_loc), "coordinates outside bounds")
            p.check("depot_no_demand", bool((td["demand_linehaul"][:, 0] == 0).all()) and bool((td["demand_backhaul"][:, 0] == 0).all()), "the depot has a demand")
            lh, bh = td["demand_linehaul"][:, 1:], td["demand_backhaul"][:, 1:]
            p.check("one_demand_kind", bool(((lh > 0) ^ (bh > 0)).all()), "a customer has both / neither linehaul and backhaul demand")
            p.check("demand_le_capacity", bool((lh <= td["vehicle_capacity"] + 1e-6).all()) and bool((bh <= td["vehicle_capacity"] + 1e-6).all()), "a demand exceeds the capacity")
            co = td["capacity_original"].reshape(B, 1) if "capacity_original" in keys else None
            if co is not None:
                scaled = bool(getattr(g, "scale_demand", True))
                d = (lh + bh) * co if scaled else (lh + bh)
                p.check("demand_integer", bool(((d - d.round()).abs() < 1e-3).all()), "demand x capacity is not an integer")
                p.check("capacity_original", bool((co == float(g.capacity)).all()), f"capacity_original {float(co.flatten()[0])} != configured capacity {g.capacity}")
                vc = td["vehicle_capacity"].reshape(B, 1)
                p.check("vehicle_capacity_scaling", bool((vc == (1.0 if scaled else float(g.capacity))).all()), f"vehicle_capacity {float(vc.flatten()[0])} with scale_demand={scaled} (capacity {g.capacity})")
                dl, db = (lh * co if scaled else lh).round(), (bh * co if scaled else bh).round()
                # customers turned from backhaul into linehaul by the variant sub-sampling keep their backhaul-range value
                lo_, hi_ = min(g.min_demand, g.min_backhaul), max(g.max_demand, g.max_backhaul)
                p.check("demand_in_range", bool(((dl[dl > 0] >= lo_) & (dl[dl > 0] <= hi_)).all()) and bool(((db[db > 0] >= g.min_backhaul) & (db[db > 0] <= g.max_backhaul)).all()),
                        f"integer demands outside their documented ranges (linehaul {float(dl[dl > 0].min()) if (dl > 0).any() else None}..{float(dl.max())}, backhaul ..{float(db.max())})")
            d0 = (locs[:, 1:] - locs[:, :1]).norm(dim=-1)
            lim = td["distance_limit"].reshape(B, 1)
            has_l = torch.isfinite(lim).reshape(B)
            p.check("limit_allows_round_trip", bool((2 * d0 < lim + 1e-6)[has_l].all()) if has_l.any() else True, "distance limit shorter than the round trip to some customer")
            tw = td["time_windows"]
            has_tw = torch.isfinite(tw[:, 1:, 1]).any(-1)
            p.check("tw_ordered", bool((tw[..., 0] <= tw[..., 1]).all()), "window start > end")
            sp = td["speed"].reshape(B, 1)
            if has_tw.any():
                p.check("tw_reachable", bool(((d0 / sp) <= tw[:, 1:, 1] + 1e-5)[has_tw].all()), "a window closes before the customer can be reached from the depot")
                p.check("tw_return", bool((tw[:, 1:, 0] + td["service_time"][:, 1:] + d0 / sp <= tw[:, :1, 1] + 1e-4)[has_tw].all()), "no time to serve and return before the depot closes")
            fl = flags_of_preset(cfg.get("preset", "all"))
            if fl is not None:
                p.check("preset_open", bool((td["open_route"].reshape(B) == fl["O"]).all()), f"open_route does not match preset {cfg['preset']}")
                if not fl["B"]:
                    p.check("preset_backhaul", bool((bh == 0).all()), f"backhaul demands present although preset {cfg['preset']} has none")
                p.check("preset_limit", bool((has_l == fl["L"]).all()), f"distance limit does not match preset {cfg['preset']}")
                p.check("preset_tw", bool((has_tw == fl["TW"]).all()), f"time windows do not match preset {cfg['preset']}")
            elif cfg.get("preset") in ("single_feat", "single_feat_otw"):
                # documented: CVRP, OVRP, VRPB, VRPL, VRPTW (+ OVRPTW for single_feat_otw) - never two features otherwise
                feats = torch.stack([td["open_route"].reshape(B).bool(), has_tw, has_l, (bh > 0).any(-1)], 1)  # O, TW, L, B
                nf = feats.sum(1)
                otw = feats[:, 0] & feats[:, 1] & ~feats[:, 2] & ~feats[:, 3]
                okv = (nf <= 1) | (otw if cfg["preset"] == "single_feat_otw" else torch.zeros(B, dtype=torch.bool))
                bad = torch.nonzero(~okv).flatten().tolist()
                p.check("preset_variant_set", not bad, f"preset {cfg['preset']} emitted an instance with features (O, TW, L, B) = {feats[bad[0]].int().tolist() if bad else None}")
                ctx.count("c18_single_feat_instances", B)
                ctx.count("c18_single_feat_otw_seen", int(otw.sum()))
    elif name in ("fjsp", "jssp"):
        if need("proc_times", "start_op_per_job", "end_op_per_job", "pad_mask"):
            pt, pad = td["proc_times"], td["pad_mask"]
            elig = (pt > 0).sum(1)  # [B, O]
            p.check("real_ops_eligible", bool((elig[~pad] >= 1).all()), "a real operation is eligible on no machine")
            if name == "fjsp":
                lo_e, hi_e = int(cfg.get("min_elig", 1)), int(cfg.get("max_elig", cfg["mas"]))
                p.check("eligible_count_range", bool(((elig[~pad] >= lo_e) & (elig[~pad] <= hi_e)).all()), f"an operation is eligible on {int(elig[~pad].min())}..{int(elig[~pad].max())} machines, configured range [{lo_e}, {hi_e}]")
                p.check("padded_ops_empty", bool((elig[pad] == 0).all()), "a padded operation has processing times")
            lo_p, hi_p = cfg.get("pmin", 1), cfg.get("pmax", 9)  # as configured (envzoo defaults)
            p.check("proc_time_range", bool(((pt[pt > 0] >= lo_p) & (pt[pt > 0] <= hi_p)).all()), f"processing time outside the configured range [{lo_p}, {hi_p}]")
            if name == "jssp":
                p.check("jssp_single_machine", bool((elig[~pad] == 1).all()), "a JSSP operation is eligible on several machines")
            nops = (td["end_op_per_job"] - td["start_op_per_job"] + 1)
            p.check("ops_per_job_range", in_range(nops, g.min_ops_per_job, g.max_ops_per_job), "operations per job outside range")
            p.check("pad_matches_jobs", bool(((~pad).sum(1) == nops.sum(1)).all()), "pad mask does not match the number of operations")
    elif name == "ffsp":
        if need("run_time"):
            p.check("shape", shape_is(td["run_time"], B, cfg["jobs"], cfg["stages"] * cfg["mas"]), "run_time shape")
            p.check("time_range", in_range(td["run_time"], g.min_time, g.max_time), "run time outside [min_time, max_time]")
    elif name == "smtwtp":
        if need("job_due_time", "job_weight", "job_process_time"):
            p.check("dummy_zero", bool((td["job_due_time"][:, 0] == 0).all()) and bool((td["job_weight"][:, 0] == 0).all()) and bool((td["job_process_time"][:, 0] == 0).all()), "dummy job 0 has non-zero features")
            p.check("ranges", in_range(td["job_due_time"][:, 1:], g.min_time_span, g.max_time_span) and in_range(td["job_weight"][:, 1:], g.min_job_weight, g.max_job_weight)
                    and in_range(td["job_process_time"][:, 1:], g.min_process_time, g.max_process_time), "feature outside documented range")
    elif name == "flp":
        if need("locs", "to_choose"):
            p.check("shape", shape_is(td["locs"], B, n, 2), "locs shape")
            p.check("quota", bool((td["to_choose"] == cfg["k"]).all()), "to_choose != configured")
            d = (td["locs"][:, :, None] - td["locs"][:, None]).norm(dim=-1)
            p.check("orig_distances", bool(((td["orig_distances"] - d).abs() < 1e-5).all()) if "orig_distances" in keys else True, "orig_distances is not the pairwise distance matrix")
            if "distances" in keys and cfg.get("dist") != "normal":
                # documented: "the current minimum distance from each location to the chosen locations" - with nothing chosen yet it
                # must not lie below any real distance of that location (it is min-ed with real distances as facilities open)
                p.check("initial_distances_upper_bound", bool((td["distances"] >= d.max(-1).values - 1e-5).all()), f"initial 'distances' {float(td['distances'].min()):.4f} lies below a real pairwise distance {float(d.max()):.4f}")
    elif name in ("dpp", "mdpp"):
        if need("locs", "probe", "action_mask"):
            am = td["action_mask"].reshape(B, -1)
            N = am.shape[1]
            if name == "dpp":
                pr = td["probe"].reshape(B, -1).long()
                p.check("probe_in_range", in_range(pr, 0, N - 1), "probing port index outside the grid")
                p.check("probe_not_offered", not bool(am.gather(1, pr).any()), "the probing port is offered by the instance's initial mask")
                n_forbidden = (~am).sum(1)
                p.check("keepout_count", bool(((n_forbidden >= cfg["kmin"]) & (n_forbidden <= cfg["kmax"] + 1)).all()), f"number of masked cells {n_forbidden.tolist()[:4]} outside [num_keepout_min, num_keepout_max + 1 probing port]")
            else:
                prm = td["probe"].reshape(B, -1).bool()
                p.check("probes_present", bool((prm.sum(1) >= 1).all()), "an instance without probing ports")
            p.check("some_cell_allowed", bool(am.any(1).all()), "no cell is allowed")
    elif name == "mcp":
        if need("membership", "weights", "n_sets_to_choose"):
            m = td["membership"]
            p.check("members_valid", in_range(m, 0, cfg["items"]), "item index outside 0..num_items")
            sz = (m > 0).sum(-1)
            lo_, hi_ = int(cfg.get("min_size", 2)), int(cfg.get("max_size", 4))  # as configured (envzoo defaults 2..4); min_size=0 documents empty sets
            p.check("sets_nonempty", bool((sz >= min(1, lo_)).all()), "an empty set although min_size >= 1")
            # (repeated draws are removed from a set, so a set may end up smaller than min_size - only the upper end is a promise)
            p.check("set_sizes_le_max", bool((sz <= hi_).all()), f"a set of {int(sz.max())} items although max_size = {hi_}")
            nodup = True
            for b in range(B):
                for row in m[b].tolist():
                    it = [int(x) for x in row if x > 0]
                    if len(it) != len(set(it)):
                        nodup = False
            p.check("no_duplicate_items", nodup, "an item appears twice in a set")
            p.check("quota", bool((td["n_sets_to_choose"] == cfg["k"]).all()), "n_sets_to_choose != configured")


def case(ctx, case):
    cfg, B, seed = case["cfg"], case["B"], case["s"]
    name = cfg["env"]
    try:
        if name in ROUTING:
            env, O = envzoo.make(cfg) if not case.get("gp") else make_with(cfg, case["gp"])
        else:
            env, O = envzoo.make_other(cfg), None
        torch.manual_seed(seed)
        td = env.generator(batch_size=[B])
        if case.get("retask"):
            # the same generator object re-parameterised between epochs, the way the library's own meta-learning callback does
            # (ReptileCallback._load_task assigns generator.num_loc / generator.capacity): the next batch must follow the NEW values
            for k_, v_ in case["retask"].items():
                setattr(env.generator, k_, v_)
            cfg = dict(cfg, n=case["retask"].get("num_loc", cfg["n"]), **({"capacity": case["retask"]["capacity"]} if "capacity" in case["retask"] else {}), retask=True)
            td = env.generator(batch_size=[B])
            ctx.count("c18_retasked_generators")
    except Exception as e:
        ctx.evaluation()
        ctx.violation(sig_of(cfg, predicate="generator_raises", exc=type(e).__name__, gp=str(sorted((case.get("gp") or {}).keys()))), f"generator raised {type(e).__name__}: {str(e)[:200]}", dict(cfg=cfg, gp=case.get("gp")))
        return
    ctx.count("c18_batches")
    predicates(ctx, cfg, env, td, B)
    # --- solvability: a mask-confined episode from every generated instance completes ------------------
    gen = torch.Generator().manual_seed(seed)
    for names in (["first_true"] * B, (envzoo.chooser_mix(B, seed) if name in ROUTING else other_choosers(cfg, B, seed))):
        cap = 8 * cfg["n"] + 60
        if name == "ffsp":  # waits advance a (time, machine) cursor: the bound grows with the run times
            from vlib.oracles.scheduling import FlowShop

            cap = max(FlowShop.step_bound(FlowShop.extract(td, b, cfg["stages"], cfg["mas"])) for b in range(B)) + 5
        ep = run_episode(env, td.clone(), names, gen, max_steps=cap, get_reward=False)
        ctx.evaluation(B)
        ctx.count("c18_episodes", B)
        fins = [ep.finish_step(b) for b in range(B)]
        if ep.error is not None or hasattr(ep, "dead_end_at") or any(f is None for f in fins):
            why = f"env.step raised {ep.error}" if ep.error is not None else ("dead end" if hasattr(ep, "dead_end_at") else "not finished within the step cap")
            ctx.violation(sig_of(cfg, predicate="solvable"), f"a mask-confined episode from a generated instance does not complete: {why}", dict(cfg=cfg, gp=case.get("gp")))
            break
    ctx.nontrivial_case(dict(c=case))
    ctx.sample(dict(case=case, keys=sorted(str(k) for k in td.keys())))


def make_with(cfg, gp):
    """routing env with extra generator parameters (distributions, overrides)."""
    import rl4co.envs as E

    name, n = cfg["env"], cfg["n"]
    cls = dict(tsp=E.TSPEnv, cvrp=E.CVRPEnv, op=E.OPEnv, pctsp=E.PCTSPEnv, sdvrp=E.SDVRPEnv, cvrptw=E.CVRPTWEnv, pdp=E.PDPEnv, atsp=E.ATSPEnv, mtvrp=E.MTVRPEnv,
               mtsp=E.MTSPEnv, svrp=E.SVRPEnv, spctsp=E.SPCTSPEnv)[name]
    gp = dict(gp)
    for k in [k for k in gp if k.endswith("_sampler") and isinstance(gp[k], (list, tuple))]:
        # a ready-made sampler object handed to the generator (documented '<name>_sampler' keyword): JSON-able spec (low, high)
        from torch.distributions import Uniform

        gp[k] = Uniform(low=float(gp[k][0]), high=float(gp[k][1]))
    env = cls(generator_params=dict(num_loc=n, **gp), check_solution=False)
    return env, None


def init_case(ctx, case):
    """Initial solutions of the improvement environments (TSP k-opt, PDP ruin-repair), built by the generators'
    `_get_initial_solutions` in both documented modes: the successor list must be a permutation forming ONE cycle through all
    nodes, for PDP with every pickup before its delivery on the walk from the depot; the env's reset must hand out the same."""
    import rl4co.envs as E

    name, n, B, seed, mode = case["env"], case["n"], case["B"], case["s"], case["init"]
    sig = dict(env=name, predicate="initial_solution", init=mode)
    torch.manual_seed(seed)
    try:
        if name == "tsp_kopt":
            env = E.TSPkoptEnv(generator_params=dict(num_loc=n, init_sol_type=mode), k_max=2)
        else:
            env = E.PDPRuinRepairEnv(generator_params=dict(num_loc=n, init_sol_type=mode))
        td = env.reset(batch_size=[B])
    except Exception as e:
        ctx.evaluation()
        ctx.violation(dict(sig, predicate="generator_raises", exc=type(e).__name__), f"reset with init_sol_type={mode} raised {type(e).__name__}: {str(e)[:200]}", None)
        return
    ctx.count("c18_batches")
    rec = td["rec_current"]
    N = rec.shape[-1]
    h = (N - 1) // 2
    for b in range(B):
        ctx.evaluation()
        ctx.count("c18_initial_solutions")
        succ = rec[b].tolist()
        if sorted(succ) != list(range(N)):
            ctx.violation(dict(sig, q="not_a_permutation"), f"initial successor list {succ} is not a permutation of the {N} nodes", None)
            return
        walk, cur = [], 0
        for _ in range(N):
            walk.append(cur)
            cur = succ[cur]
        if cur != 0 or len(set(walk)) != N:
            ctx.violation(dict(sig, q="not_one_cycle"), f"initial successor list {succ} is not a single cycle through all nodes (walk from 0: {walk})", None)
            return
        if name != "tsp_kopt":
            pos = {v: i for i, v in enumerate(walk)}
            bad = [p for p in range(1, h + 1) if pos[p] > pos[p + h]]
            if bad:
                ctx.violation(dict(sig, q="precedence"), f"initial tour {walk} visits the delivery before the pickup for orders {bad}", None)
                return
    ctx.nontrivial_case(dict(c=case))
    ctx.sample(dict(case=case, first_tour=rec[0].tolist()))
