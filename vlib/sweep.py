"""Shared episode sweep for the environment-level monitors (C01, C02, C03, C06).

One case = one batch episode of a real env under hostile mask-confined choosers. The
monitors selected by the calling check are evaluated on the recorded events.
"""
from __future__ import annotations

import torch

from vlib import envzoo
from vlib.episode import run_episode


def cfg_label(cfg):
    return {k: v for k, v in cfg.items() if k not in ("n",)}


def sig_of(cfg, **kw):
    d = dict(env=cfg["env"])
    for k in ("preset", "cost_type", "scale", "start_depot", "reward_mode", "problem_mode", "speed", "vcap", "dist_mode", "prize_required", "dense", "stepwise", "check_mask"):
        if k in cfg:
            d[k] = cfg[k]
    d.update(kw)
    return d


def tol_reward(ref):
    return 1e-4 * max(1.0, abs(ref))


# envs whose instance format is closed under reset (env.reset returns its argument, updated in place - torchrl semantics -
# and a second reset of that object starts an identical fresh episode on the unchanged tree). For the others (CVRP family, OP,
# PCTSP, PDP, MDCPDP, MCP: reset prepends the depot / rewrites instance keys) resetting a consumed object is not supported
# by the library as it stands, so the reuse workload is not applied to them.
# DPP / MDPP instances carry their initial `action_mask`; stepping writes the current mask into the same object, so a consumed DPP
# instance starts its next episode with the previous placements still masked (seen once several episodes were chained: the cells
# run out) - same contract as the CVRP family, not a supported input.
REUSE_OK = {"tsp", "atsp", "mtsp", "mtvrp", "fjsp", "jssp", "flp", "smtwtp"}


def reset_preserves_instance(name, td_in, td0):
    """-> None or (key, message). Keys of the input that reappear in the reset state must be equal, or equal after the
    depot's entry at index 0 (locs, prize, penalty ...). Known documented transforms: OP max_length (per-node remaining
    length), MDCPDP locs (depots prepended)."""
    for k in td_in.keys():
        v = td_in[k]
        if not isinstance(v, torch.Tensor) or k not in td0.keys():
            continue
        w = td0[k]
        if (name, k) in (("op", "max_length"),) or k == "action_mask":
            continue  # documented transforms; 'action_mask' is state even when an instance supplies an initial one (DPP/MDPP)
        if name == "mdcpdp" and k == "locs":
            if not torch.equal(w, torch.cat((td_in["depot"].reshape(v.shape[0], -1, 2), v), 1)):
                return k, "locs of the reset state are not depots + customers of the instance"
            continue
        if v.shape == w.shape:
            if not torch.equal(v, w):
                return k, f"key '{k}' differs between the instance and the reset state"
        elif w.dim() == v.dim() and w.dim() >= 2 and w.shape[1] == v.shape[1] + 1 and w.shape[2:] == v.shape[2:]:
            if not torch.equal(w[:, 1:], v):
                return k, f"key '{k}' of the reset state is not the instance's with one leading (depot) entry"
            if k == "locs" and "depot" in td_in.keys() and not torch.equal(w[:, 0], td_in["depot"].reshape(w[:, 0].shape)):
                return k, "entry 0 of locs in the reset state is not the instance's depot"
        else:
            return k, f"key '{k}' changes shape {tuple(v.shape)} -> {tuple(w.shape)} on reset"
    return None


def routing_case(ctx, case, monitors):
    cfg, family, B, seed = case["cfg"], case["family"], case["B"], case["s"]
    if case.get("reuse") and cfg["env"] not in REUSE_OK:
        case = dict(case, reuse=False)
    # TorchRL mode (step() keeps the caller's state and returns the new one under "next"), driven with look-ahead probes: before
    # every real move another admitted action is stepped from the same retained state and discarded
    env, O = envzoo.make(dict(cfg, torchrl=True) if case.get("torchrl") else cfg)
    if case.get("inst_n"):
        # instances of another size than the env was constructed for (generalisation runs): made by a sibling env of that size
        cfg_i = dict(cfg, n=case["inst_n"])
        env_i, _ = envzoo.make(cfg_i)
        td_in = envzoo.instances(env_i, cfg_i, family, B, seed)
        ctx.count("other_size_instance_cases")
        try:
            probe = env.reset(td_in.clone())
            if "locs" in probe.keys() and probe["locs"].dim() == 3 and probe["action_mask"].shape[-1] != probe["locs"].shape[1]:
                ctx.count("other_size_unsupported_by_env")  # reset state sized from the generator: not a supported input
                return
        except Exception:
            ctx.count("other_size_unsupported_by_env")
            return
    else:
        td_in = envzoo.instances(env, cfg, family, B, seed)
    gen = torch.Generator().manual_seed(seed)
    names = envzoo.chooser_mix(B, seed) if case.get("choosers", "mix") == "mix" else [case["choosers"]] * B
    # bound for the driver: generous multiple of the oracle's bound so that a hung episode is observed, not awaited
    td0_probe = None
    td_pristine = td_in.clone()  # what the oracles read: the instance as handed over, before any episode touched the object
    if case.get("reuse"):
        # the same instance object is decoded twice (or more often) without cloning (evaluate a batch, then evaluate it again):
        # the earlier episodes must leave nothing behind in it; the monitors below watch the LAST episode
        for rep_ in range(int(case.get("reuse_n", 1))):
            e_ = run_episode(env, td_in, list(reversed(names)), torch.Generator().manual_seed(seed + 1 + rep_), max_steps=case.get("max_steps", 6 * max(cfg["n"], case.get("inst_n") or 0) + 30), clone_input=False)
            if "next" in td_in.keys():
                # TorchRL-mode envs hang the trajectory ("next" -> "next" -> ...) onto the object they were given; an instance that
                # is decoded again is handed over without that trajectory (otherwise its nesting grows by one episode per reuse
                # until TensorDict.clone hits the recursion limit - an artefact of the workload, not of the env; DESIGN 35)
                td_in.del_("next")
            if e_.error is not None or hasattr(e_, "dead_end_at"):
                break
        ctx.count("reused_instance_objects")
    ep = run_episode(env, td_in, names, gen, max_steps=case.get("max_steps", 6 * max(cfg["n"], case.get("inst_n") or 0) + 30), clone_input=not case.get("reuse"), peek="last_true" if case.get("torchrl") else None)
    if case.get("torchrl"):
        ctx.count("torchrl_mode_episodes")
        ctx.count("torchrl_lookahead_probes", getattr(ep, "peeks", 0))
    td0 = ep.td0
    # static instance fields for the oracles: in reuse mode from a reset of the pristine copy, not of the reused object
    td0_src = env.reset(td_pristine.clone()) if case.get("reuse") else td0
    # reset must hand the instance on unchanged: every key of the input is carried as is, or with the depot's entry
    # prepended (the oracles read several static fields from the reset state, so this is what justifies them)
    bad_key = reset_preserves_instance(cfg["env"], td_pristine, td0_src)
    ctx.count("reset_instance_key_checks")
    if bad_key:
        ctx.evaluation()
        ctx.violation(sig_of(cfg, q="reset_alters_instance", key=bad_key[0]), f"env.reset changed instance data: {bad_key[1]}", None)
        return
    insts = [O.extract(td_pristine, td0_src, b, env) for b in range(B)]
    ctx.count("episodes")
    ctx.count("env_steps", len(ep.actions))
    fins = [ep.finish_step(b) for b in range(B)]
    T = len(ep.actions)
    pad = [0 if f is None else T - 1 - f for f in fins]
    if ep.error is not None and "C02" not in monitors:
        ctx.evaluation()
        ctx.violation(sig_of(cfg, q="step_raises", exc=type(ep.error).__name__, reuse=bool(case.get("reuse"))), f"env.step raised {type(ep.error).__name__} during a mask-confined episode: {str(ep.error)[:200]}", dict(step=T))
        return

    # ---------------- C02: structural per-step monitor --------------------------------------
    if "C02" in monitors:
        ctx.evaluation(B)
        if ep.error is not None:
            ctx.violation(sig_of(cfg, q="step_raises"), f"env.step raised {type(ep.error).__name__}: {ep.error}", dict(step=T))
        if hasattr(ep, "dead_end_at"):
            rows = torch.nonzero(~ep.final_mask.any(-1)).flatten().tolist()
            done_now = ep.done_after[-1] if ep.done_after else ep.done0
            for b in rows[:3]:
                ctx.violation(sig_of(cfg, q="dead_end", finished_row=bool(done_now[b]), family=family if family != "gen" else "gen"),
                              f"row offered no feasible action at step {ep.dead_end_at} while the batch is unfinished (row finished={bool(done_now[b])})",
                              dict(row=b, inst=insts[b], actions=ep.executed(b), step=ep.dead_end_at))
        prev = ep.done0
        for t, d in enumerate(ep.done_after):
            back = prev & ~d
            if back.any():
                b = int(torch.nonzero(back)[0])
                ctx.violation(sig_of(cfg, q="undone"), f"finished row became unfinished at step {t}", dict(row=b, inst=insts[b], actions=[int(a[b]) for a in ep.actions[: t + 1]]))
            prev = d
            ctx.count("c02_step_events", B)
        for b in range(B):
            bound = O.step_bound(insts[b])
            if fins[b] is None:
                if not hasattr(ep, "dead_end_at") and ep.error is None and T >= bound:
                    ctx.violation(sig_of(cfg, q="step_bound"), f"row not finished after {T} mask-confined steps (bound {bound})", dict(row=b, inst=insts[b], actions=ep.executed(b)))
            elif fins[b] + 1 > bound:
                ctx.violation(sig_of(cfg, q="step_bound"), f"row finished after {fins[b]+1} steps > bound {bound}", dict(row=b, inst=insts[b], actions=ep.executed(b)))
        if B >= 2 and max(pad) >= 3:
            ctx.nontrivial_case(case)
            ctx.count("c02_batches_with_padding>=3")
        ctx.sample(dict(case=case, finishing_steps=fins, first_row_actions=ep.executed(0)))
        if "C02" == monitors or monitors == {"C02"}:
            return

    complete = [f is not None for f in fins]

    # ---------------- C01: feasibility oracle ------------------------------------------------
    feasible_clean = [False] * B
    for b in range(B):
        if not complete[b]:
            continue
        acts = ep.executed(b)
        v = O.violations(insts[b], acts)
        hard = [x for x in v if x[1] == "violated"]
        amb = [x for x in v if x[1] == "ambiguous"]
        feasible_clean[b] = not hard and not amb
        if "C01" in monitors:
            ctx.evaluation()
            ctx.count("c01_episodes_checked")
            if amb:
                ctx.ambiguous += 1
            for c, st, info in hard:
                ctx.violation(sig_of(cfg, constraint=c, family=family), f"mask-confined episode infeasible: {c}: {info}", dict(row=b, inst=insts[b], actions=acts, chooser=names[b]))
            ctx.nontrivial_case(dict(i=insts[b], a=acts))
            if b == 0:
                ctx.sample(dict(case=case, actions=acts, chooser=names[b], violations=[list(x) for x in v]))

    # ---------------- C03: reward oracle ------------------------------------------------------
    if "C03" in monitors:
        if ep.reward_exc is not None:
            ctx.evaluation()
            ctx.violation(sig_of(cfg, q="reward_raises", exc=type(ep.reward_exc).__name__), f"get_reward raised {type(ep.reward_exc).__name__}: {str(ep.reward_exc)[:200]}",
                          dict(actions=ep.actions_tensor().tolist(), inst=insts[0]))
        elif ep.reward is not None:
            r = ep.reward.reshape(B, -1)[:, 0] if ep.reward.numel() >= B else None
            if r is None or ep.reward.numel() != B:
                ctx.violation(sig_of(cfg, q="reward_shape"), f"reward has shape {tuple(ep.reward.shape)} for batch {B}", None)
            else:
                for b in range(B):
                    if not complete[b]:
                        continue
                    acts = ep.executed(b)
                    ref = O.objective(insts[b], acts)
                    ctx.evaluation()
                    ctx.count("c03_rewards_checked")
                    got = float(r[b])
                    if not (abs(got - ref) <= tol_reward(ref)):
                        ctx.violation(sig_of(cfg, q="reward", padded=pad[b] > 0, sign=("lib_better" if got > ref else "lib_worse")),
                                      f"reward {got} != independent objective {ref} (padding steps: {pad[b]})",
                                      dict(row=b, inst=insts[b], actions=acts, padded_actions=[int(a[b]) for a in ep.actions], reward=got, oracle=ref))
                    ctx.nontrivial_case(dict(i=insts[b], a=acts))
                    if b == 0:
                        ctx.sample(dict(case=case, actions=acts, reward=got, oracle=ref, padding=pad[b]))
                r0_ = getattr(ep, "reward_on_reset", None)
                state_reward = cfg["env"] == "mdcpdp" or (cfg["env"] == "mtsp" and cfg.get("cost_type", "minmax") == "minmax")
                if r0_ is not None and r0_.numel() == B and not state_reward:
                    ctx.count("c03_rescored_on_reset_state")
                    r0v = r0_.reshape(B, -1)[:, 0]
                    for b in range(B):
                        if complete[b] and abs(float(r0v[b]) - float(r[b])) > tol_reward(float(r[b])):
                            ctx.violation(sig_of(cfg, q="reward", via="rescored_on_reset_state"), f"get_reward(reset state, actions) = {float(r0v[b])}, get_reward(final state, actions) = {float(r[b])}: the reward of this env is documented as a function of the instance and the actions (the evaluators re-score this way)", dict(row=b, inst=insts[b], actions=ep.executed(b)))
                            break
                rr = getattr(ep, "reward_repeat", None)
                if rr is not None and rr.numel() == B:
                    ctx.count("c03_repeated_reward_calls")
                    r2 = rr.reshape(B, -1)[:, 0]
                    for b in range(B):
                        if complete[b] and abs(float(r2[b]) - float(r[b])) > tol_reward(float(r[b])):
                            ctx.violation(sig_of(cfg, q="reward", via="repeated_call_on_same_state"), f"get_reward asked twice for the same final state returns {float(r[b])} and then {float(r2[b])}", dict(row=b, inst=insts[b], actions=ep.executed(b)))
                            break

    # ---------------- C06 (accept side): checker must accept mask-generated feasible solutions --
    if "C06" in monitors and all(complete) and ep.actions:
        acts_t = ep.actions_tensor()
        for b in range(B):
            if not feasible_clean[b]:
                continue
            try:
                env.check_solution_validity(ep.td_final[b : b + 1].clone(), acts_t[b : b + 1].clone())
                raised = None
            except AssertionError as e:
                raised = e
            ctx.evaluation()
            ctx.count("c06_accept_checked")
            if raised is not None:
                ctx.violation(sig_of(cfg, q="false_reject", family=family), f"checker rejects a feasible mask-generated solution: {raised}", dict(row=b, inst=insts[b], actions=acts_t[b].tolist()))
    return ep, insts, fins


# ==========================================================================================
# scheduling + selection environments
# ==========================================================================================
from vlib.oracles import scheduling as S  # noqa: E402


def other_choosers(cfg, B, seed):
    name = cfg["env"]
    if name in ("fjsp", "jssp"):
        pool = ["uniform", "first_true", "last_true", "depot_whenever", "avoid_depot"]  # index 0 = wait
    elif name == "ffsp":
        pool = ["uniform", "first_true", "last_true"]  # last index = wait
    else:
        pool = ["uniform", "first_true", "last_true"]
    g = torch.Generator().manual_seed(seed)
    idx = torch.randint(0, len(pool), (B,), generator=g).tolist()
    names = [pool[i] for i in idx]
    if B >= 2 and name in ("fjsp", "jssp"):
        names[0], names[1] = "depot_whenever", "avoid_depot"  # wait whenever allowed / never wait
    if B >= 2 and name == "ffsp":
        names[0], names[1] = "last_true", "first_true"
    return names


def _structural(ctx, cfg, ep, B, bound_of, insts, family="gen"):
    """C02 monitor shared by all envs."""
    T = len(ep.actions)
    fins = [ep.finish_step(b) for b in range(B)]
    ctx.evaluation(B)
    if ep.error is not None:
        ctx.violation(sig_of(cfg, q="step_raises", exc=type(ep.error).__name__), f"env.step raised {type(ep.error).__name__}: {ep.error}", dict(step=T, inst=insts[0]))
    if hasattr(ep, "dead_end_at"):
        rows = torch.nonzero(~ep.final_mask.any(-1)).flatten().tolist()
        done_now = ep.done_after[-1] if ep.done_after else ep.done0
        for b in rows[:3]:
            ctx.violation(sig_of(cfg, q="dead_end", finished_row=bool(done_now[b])),
                          f"row offered no feasible action at step {ep.dead_end_at} while the batch is unfinished (row finished={bool(done_now[b])})",
                          dict(row=b, inst=insts[b], actions=ep.executed(b), step=ep.dead_end_at))
    prev = ep.done0
    for t, d in enumerate(ep.done_after):
        back = prev & ~d
        if back.any():
            b = int(torch.nonzero(back)[0])
            ctx.violation(sig_of(cfg, q="undone"), f"finished row became unfinished at step {t}", dict(row=b, inst=insts[b]))
        prev = d
        ctx.count("c02_step_events", B)
    for b in range(B):
        bound = bound_of(b)
        if fins[b] is None:
            if not hasattr(ep, "dead_end_at") and ep.error is None and T >= bound:
                ctx.violation(sig_of(cfg, q="step_bound"), f"row not finished after {T} mask-confined steps (bound {bound})", dict(row=b, inst=insts[b], actions=ep.executed(b)))
        elif fins[b] + 1 > bound:
            ctx.violation(sig_of(cfg, q="step_bound"), f"row finished after {fins[b]+1} steps > bound {bound}", dict(row=b, inst=insts[b], actions=ep.executed(b)))
    pad = [0 if f is None else T - 1 - f for f in fins]
    return fins, pad


def other_case(ctx, case, monitors):
    cfg, B, seed = case["cfg"], case["B"], case["s"]
    if case.get("reuse") and cfg["env"] not in REUSE_OK:
        case = dict(case, reuse=False)
    name = cfg["env"]
    # FFSP keeps part of its episode state on the env object (index tables, cursors): probing an action from a retained
    # TensorDict is not meaningful there (and can make the real episode spin), so it is driven in the default mode only
    use_torchrl = bool(case.get("torchrl")) and name not in ("dpp", "mdpp", "ffsp")
    env = envzoo.make_other(dict(cfg, torchrl=True) if use_torchrl else cfg)
    torch.manual_seed(seed)
    td_in = env.generator(batch_size=[B])
    if case.get("family") == "boundary" and name == "smtwtp":
        # integer-valued instance with jobs of processing time exactly 0 (a boundary of the documented range)
        g_ = torch.Generator().manual_seed(seed)
        pt = torch.randint(0, 6, td_in["job_process_time"].shape, generator=g_).float()
        pt[:, 0] = 0
        pt[torch.arange(B), torch.randint(1, pt.shape[1], (B,), generator=g_)] = 0.0
        td_in["job_process_time"] = pt
        td_in["job_due_time"] = torch.randint(0, 12, pt.shape, generator=g_).float() * (torch.arange(pt.shape[1]) > 0)
    if case.get("family") == "sentinel" and name in ("fjsp", "jssp"):
        # completion times that coincide with the env's 9999 "not scheduled yet" marker: the operations of job 0 (and of job 1,
        # shifted by one unit) have durations adding up to exactly 9999, so a job that runs without waiting finishes AT the marker
        pt = td_in["proc_times"].clone()
        so, eo = td_in["start_op_per_job"], td_in["end_op_per_job"]
        for b in range(B):
            for j, total in ((0, 9999), (1, 9998)):
                if j >= so.shape[1]:
                    continue
                ops = list(range(int(so[b, j]), int(eo[b, j]) + 1))
                k = len(ops)
                for i, o in enumerate(ops):
                    d = total // k + (total % k if i == k - 1 else 0)
                    pt[b, :, o] = torch.where(pt[b, :, o] > 0, torch.full_like(pt[b, :, o], float(d)), pt[b, :, o])
        td_in["proc_times"] = pt
    if case.get("family") == "handbuilt" and name == "mdpp":
        # hand-supplied instance: action_mask encodes only the keep-out layout, probing ports live in the separate probe map
        td_in["action_mask"] = ~td_in["keepout"].bool() if "keepout" in td_in.keys() else td_in["action_mask"] | td_in["probe"].bool()
    if case.get("family") == "handbuilt" and name == "mcp":
        # hand-supplied set system (loaded data is not de-duplicated by anybody): an item listed twice in a set, padding zeros in
        # front of and between the members - a set still covers each of its items once
        g_ = torch.Generator().manual_seed(seed + 3)
        mem = td_in["membership"].clone()
        Bm, Sm, Km = mem.shape
        for b in range(Bm):
            for s_ in range(Sm):
                row = mem[b, s_]
                real = row[row > 0]
                if real.numel() >= 1 and Km >= 2 and float(torch.rand(1, generator=g_)) < 0.5:
                    row = row.clone()
                    row[-1] = real[0]  # repeat the first member (overwrites a padding slot or the last member)
                    if real.numel() >= 2:
                        row[-2 if Km >= 3 else -1] = real[0]
                perm = torch.randperm(Km, generator=g_)
                mem[b, s_] = row[perm]
        td_in["membership"] = mem
    if case.get("family") == "coincident" and name == "flp":
        # several locations at the same address (integer / grid data, de-duplicated customers): fewer distinct coordinates than
        # facilities to open in half of the rows - distinct LOCATIONS can still be opened until the quota is reached
        g_ = torch.Generator().manual_seed(seed + 5)
        locs = td_in["locs"].clone()
        Bf, Nf, _ = locs.shape
        for b in range(Bf):
            m = max(1, cfg["k"] - 1) if b % 2 == 0 else min(Nf, cfg["k"] + 1)
            pts = locs[b, :m].clone()
            locs[b] = pts[torch.randint(0, m, (Nf,), generator=g_)]
        td_in["locs"] = locs
        if "orig_distances" in td_in.keys():
            td_in["orig_distances"] = (locs[:, :, None, :] - locs[:, None, :, :]).norm(dim=-1)
    if case.get("family") == "mixed_quota" and name in ("flp", "mcp"):
        key = "to_choose" if name == "flp" else "n_sets_to_choose"
        q = td_in[key].clone()
        q.reshape(B, -1)[: B // 2] = max(1, cfg["k"] - 1)
        td_in[key] = q
    gen = torch.Generator().manual_seed(seed)
    names = other_choosers(cfg, B, seed)
    snap = None
    if name in ("fjsp", "jssp") and cfg.get("stepwise"):
        snap = ["reward", "lbs"]
    if name == "ffsp":
        snap = ["time_idx", "machine_idx"]  # the clock and the deciding machine as shown to the agent (state before the next action)
    if name == "flp":
        snap = ["distances", "chosen"]
    elif name == "mcp":
        snap = ["weights", "chosen", "membership"]
    td_keep = td_in.clone()
    if case.get("reuse"):
        # (several earlier episodes on the same object: state that accumulates across episodes needs more than one to show)
        for rep_ in range(int(case.get("reuse_n", 1))):
            e_ = run_episode(env, td_in, list(reversed(names)), torch.Generator().manual_seed(seed + 1 + rep_), max_steps=case.get("max_steps", 2000), clone_input=False)
            if "next" in td_in.keys():
                # TorchRL-mode envs hang the trajectory ("next" -> "next" -> ...) onto the object they were given; an instance that
                # is decoded again is handed over without that trajectory (otherwise its nesting grows by one episode per reuse
                # until TensorDict.clone hits the recursion limit - an artefact of the workload, not of the env; DESIGN 35)
                td_in.del_("next")
            if e_.error is not None or hasattr(e_, "dead_end_at"):
                break
        ctx.count("reused_instance_objects")
    ep = run_episode(env, td_in, names, gen, max_steps=case.get("max_steps", 2000), snap_keys=snap, clone_input=not case.get("reuse"), peek="last_true" if use_torchrl else None)
    if use_torchrl:
        ctx.count("torchrl_mode_episodes")
        ctx.count("torchrl_lookahead_probes", getattr(ep, "peeks", 0))
    td0 = ep.td0
    T = len(ep.actions)
    ctx.count("episodes")
    ctx.count("env_steps", T)
    if not case.get("reuse"):
        bad_key = reset_preserves_instance(name, td_keep, td0)
        ctx.count("reset_instance_key_checks")
        if bad_key and ({"C07", "C08", "C03"} & monitors):
            ctx.evaluation()
            ctx.violation(sig_of(cfg, q="reset_alters_instance", key=bad_key[0]), f"env.reset changed instance data: {bad_key[1]}", None)
            return
    if ep.error is not None and ({"C07", "C08", "C03"} & monitors) and "C02" not in monitors:
        # a mask-confined episode that raises yields no schedule / selection / reward at all
        ctx.evaluation()
        ctx.violation(sig_of(cfg, q="step_raises", exc=type(ep.error).__name__, reuse=bool(case.get("reuse"))), f"env.step raised {type(ep.error).__name__} during a mask-confined episode: {str(ep.error)[:200]}", dict(step=T))
        return

    # ------------------------------------------------------------------ FJSP / JSSP
    if name in ("fjsp", "jssp"):
        insts = [S.JobShop.extract(td0, b) for b in range(B)]
        fins, pad = _structural(ctx, cfg, ep, B, lambda b: S.JobShop.step_bound(insts[b]), insts) if "C02" in monitors else ([ep.finish_step(b) for b in range(B)], None)
        if "C02" in monitors and max(pad) >= 3:
            ctx.nontrivial_case(case)
        if not ({"C07", "C03"} & monitors) or ep.error is not None:
            return
        dec = S.fjsp_decode(cfg["mas"]) if name == "fjsp" else S.jssp_decode()
        tdF = ep.td_final
        for b in range(B):
            if fins[b] is None:
                continue
            start, finish = tdF["start_times"][b].tolist(), tdF["finish_times"][b].tolist()
            assign = tdF["ma_assignment"][b].tolist()
            v, mk = S.JobShop.schedule_violations(insts[b], start, finish, assign)
            acts = ep.executed(b)
            if "C07" in monitors:
                ctx.evaluation()
                ctx.count("c07_schedules_checked")
                for rule, info in v:
                    ctx.violation(sig_of(cfg, rule=rule, mask_no_ops=cfg["mask_no_ops"]), f"invalid schedule: {rule}: {info}", dict(row=b, inst=insts[b], actions=acts, start=start, finish=finish))
                s2, f2, m2, done2, err = S.JobShop.simulate(insts[b], acts, dec, not cfg["mask_no_ops"])
                ctx.count("c07_simulations")
                if err is not None or not done2:
                    ctx.violation(sig_of(cfg, rule="simulator_disagrees", mask_no_ops=cfg["mask_no_ops"]), f"reference simulator cannot follow the action sequence: {err or 'not finished'}", dict(row=b, inst=insts[b], actions=acts))
                else:
                    for o in range(len(start)):
                        if insts[b]["pad"][o]:
                            continue
                        if s2[o] != start[o] or f2[o] != finish[o] or assign[m2[o]][o] != 1:
                            ctx.violation(sig_of(cfg, rule="schedule_vs_actions", mask_no_ops=cfg["mask_no_ops"]), f"op {o}: env says start {start[o]} finish {finish[o]}, reference simulator of the same actions says {s2[o]}..{f2[o]} on machine {m2[o]}", dict(row=b, inst=insts[b], actions=acts))
                            break
                if 0 in acts[:-1] or pad and pad[b] > 0:
                    ctx.nontrivial_case(dict(i=insts[b], a=acts))
                else:
                    ctx.nontrivial_case(dict(i=insts[b], a=acts))
                if b == 0:
                    ctx.sample(dict(case=case, actions=acts, makespan=mk, start=start[: 8], finish=finish[: 8]))
            if ep.reward is not None and ("C03" in monitors or "C07" in monitors):
                got = float(ep.reward.reshape(B, -1)[b, 0])
                ctx.count("c03_rewards_checked")
                if "C03" in monitors:
                    ctx.evaluation()
                    ctx.nontrivial_case(dict(i=insts[b], a=acts))
                if not v and abs(got + mk) > 1e-4 * max(1, abs(mk)):
                    ctx.violation(sig_of(cfg, q="reward", rule="makespan"), f"reward {got} != -makespan {-mk} of the reconstructed schedule", dict(row=b, inst=insts[b], actions=acts))
                elif v and "C03" in monitors:
                    ctx.violation(sig_of(cfg, q="reward", rule="makespan_of_invalid_schedule"), f"reward {got} is read from a schedule that violates '{v[0][0]}': {v[0][1]}", dict(row=b, inst=insts[b], actions=acts))
        if ep.reward_exc is not None:
            ctx.violation(sig_of(cfg, q="reward_raises"), f"get_reward raised {ep.reward_exc}", None)
        if cfg.get("stepwise") and "C07" in monitors and ep.error is None and ep.states:
            # step-wise reward mode: every step reports minus the change of the lower bound of the makespan, so along an episode the
            # rewards telescope to -(makespan - initial lower bound); finished (padded) rows report 0
            lb0 = ep.td0["lbs"].reshape(B, -1).max(-1).values
            for b in range(B):
                if fins[b] is None:
                    continue
                tot = sum(float(st["reward"].reshape(B, -1)[b, 0]) for st in ep.states)
                mk_b = float(ep.td_final["finish_times"][b][~ep.td_final["pad_mask"][b]].max()) if "pad_mask" in ep.td_final.keys() else None
                ctx.count("c07_stepwise_reward_sums")
                if mk_b is not None and abs(tot + (mk_b - float(lb0[b]))) > 1e-3 * max(1.0, abs(mk_b)):
                    ctx.violation(sig_of(cfg, q="reward", rule="stepwise_sum"), f"step-wise rewards sum to {tot}, expected -(makespan {mk_b} - initial lower bound {float(lb0[b])})", dict(row=b, inst=insts[b]))
                    break
        if cfg.get("stepwise"):
            pass
        elif ep.reward is not None and all(f is not None for f in fins):
            # the documented way to ask for the reward of a finished state without an action sequence (the makespan is read
            # from the state): it must report the same makespan
            try:
                r_none = env.get_reward(ep.td_final.clone(), None)
                ctx.count("c07_reward_without_actions_checks")
                if r_none.reshape(B, -1)[:, 0].shape != ep.reward.reshape(B, -1)[:, 0].shape or not torch.allclose(r_none.reshape(B, -1)[:, 0].float(), ep.reward.reshape(B, -1)[:, 0].float(), rtol=1e-5, atol=1e-5):
                    ctx.violation(sig_of(cfg, q="reward", rule="makespan", via="get_reward(td, None)"), f"get_reward(td, None) reports {r_none.reshape(-1)[:4].tolist()}, get_reward(td, actions) {ep.reward.reshape(-1)[:4].tolist()}", None)
            except Exception as e:
                ctx.violation(sig_of(cfg, q="reward_raises", via="get_reward(td, None)"), f"get_reward(td, None) raised {type(e).__name__}: {str(e)[:160]}", None)
        return

    # ------------------------------------------------------------------ FFSP
    if name == "ffsp":
        insts = [S.FlowShop.extract(td_keep, b, cfg["stages"], cfg["mas"]) for b in range(B)]
        fins, pad = _structural(ctx, cfg, ep, B, lambda b: S.FlowShop.step_bound(insts[b]), insts) if "C02" in monitors else ([ep.finish_step(b) for b in range(B)], None)
        if "C02" in monitors and max(pad) >= 3:
            ctx.nontrivial_case(case)
        if not ({"C07", "C03"} & monitors) or ep.error is not None:
            return
        tdF = ep.td_final
        for b in range(B):
            if fins[b] is None:
                continue
            sch = tdF["schedule"][b].tolist()
            v, mk = S.FlowShop.schedule_violations(insts[b], sch)
            acts = ep.executed(b)
            if "C07" in monitors:
                ctx.evaluation()
                ctx.count("c07_schedules_checked")
                for rule, info in v:
                    ctx.violation(sig_of(cfg, rule=rule, flatten=cfg["flatten"]), f"invalid flow-shop schedule: {rule}: {info}", dict(row=b, inst=insts[b], actions=acts, schedule=sch))
                # the schedule must also be the one the ACTIONS describe: a job chosen while the agent was shown clock t and machine m
                # starts on m at t (the observable state before each action is the reference, not the env's booking code)
                if not v and ep.states and "time_idx" in ep.td0.keys():
                    nj = len(sch[0]) - 1
                    for t_, a_ in enumerate(acts):
                        if a_ >= nj:
                            continue  # wait
                        before = ep.td0 if t_ == 0 else ep.states[t_ - 1]
                        clk, mac = int(before["time_idx"].reshape(B)[b]), int(before["machine_idx"].reshape(B)[b])
                        ctx.count("c07_ffsp_action_bookings")
                        if sch[mac][a_] != clk:
                            ctx.violation(sig_of(cfg, rule="schedule_vs_actions", flatten=cfg["flatten"]), f"step {t_}: job {a_} was chosen at clock {clk} on machine {mac}, the schedule books it at {sch[mac][a_]}", dict(row=b, inst=insts[b], actions=acts, schedule=sch))
                            break
                ctx.nontrivial_case(dict(i=insts[b], a=acts))
                if b == 0:
                    ctx.sample(dict(case=case, actions=acts, makespan=mk))
            if ep.reward is not None and all(f is not None for f in fins):
                got = float(ep.reward.reshape(B, -1)[b, 0])
                ctx.count("c03_rewards_checked")
                if "C03" in monitors:
                    ctx.evaluation()
                    ctx.nontrivial_case(dict(i=insts[b], a=acts))
                if not v and got != -float(mk):
                    ctx.violation(sig_of(cfg, q="reward", rule="makespan"), f"reward {got} != -makespan {-mk}", dict(row=b, inst=insts[b], actions=acts))
                elif v and "C03" in monitors:
                    # the reported number is read off a schedule table that is not a valid schedule of the instance (overlaps, broken
                    # stage order, wrong durations): it cannot be the makespan of the executed action sequence
                    ctx.violation(sig_of(cfg, q="reward", rule="makespan_of_invalid_schedule", flatten=cfg["flatten"]), f"reward {got} is read from a schedule that violates '{v[0][0]}': {v[0][1]}", dict(row=b, inst=insts[b], actions=acts))
        return

    # ------------------------------------------------------------------ SMTWTP
    if name == "smtwtp":
        insts = [S.SMTWTP.extract(td0, b) for b in range(B)]
        fins, pad = _structural(ctx, cfg, ep, B, lambda b: S.SMTWTP.step_bound(insts[b]), insts) if "C02" in monitors else ([ep.finish_step(b) for b in range(B)], None)
        if "C02" in monitors:
            ctx.nontrivial_case(case)
        for b in range(B):
            if fins[b] is None:
                continue
            acts = ep.executed(b)
            if "C07" in monitors:
                ctx.evaluation()
                ctx.count("c07_schedules_checked")
                for rule, info in S.SMTWTP.violations(insts[b], acts):
                    ctx.violation(sig_of(cfg, rule=rule), f"SMTWTP: {rule}: {info}", dict(row=b, inst=insts[b], actions=acts))
                ctx.nontrivial_case(dict(i=insts[b], a=acts))
            if "C03" in monitors and ep.reward is not None:
                ref = S.SMTWTP.objective(insts[b], acts)
                got = float(ep.reward.reshape(B, -1)[b, 0])
                ctx.evaluation()
                ctx.count("c03_rewards_checked")
                ctx.nontrivial_case(dict(i=insts[b], a=acts))
                if abs(got - ref) > tol_reward(ref):
                    ctx.violation(sig_of(cfg, q="reward"), f"reward {got} != weighted tardiness {ref}", dict(row=b, inst=insts[b], actions=acts))
        return

    # ------------------------------------------------------------------ selection: FLP / MCP / DPP / MDPP
    if name == "flp":
        insts = [dict(locs=td0["locs"][b].tolist(), k=int(td0["to_choose"].reshape(B, -1)[b, 0])) for b in range(B)]
    elif name == "mcp":
        # sets and weights from the instance as handed over (the env keeps working copies: 'orig_membership', 'orig_weights')
        insts = [dict(membership=[[int(x) for x in row if x > 0] for row in td_keep["membership"][b].tolist()], weights=td_keep["weights"][b].tolist(),
                      k=int(td_keep["n_sets_to_choose"].reshape(B, -1)[b, 0])) for b in range(B)]
    else:
        insts = [dict(allowed=td0["action_mask"][b].tolist(), keepout=td0["keepout"][b].tolist(), probe=td0["probe"][b].tolist(), k=cfg["decaps"]) for b in range(B)]
    fins, pad = _structural(ctx, cfg, ep, B, lambda b: insts[b]["k"], insts) if "C02" in monitors else ([ep.finish_step(b) for b in range(B)], None)
    if "C02" in monitors:
        if case.get("family") == "mixed_quota" or name in ("dpp", "mdpp"):
            ctx.nontrivial_case(case)
    if not ({"C08", "C03"} & monitors):
        return
    import math

    if "C08" in monitors and hasattr(ep, "dead_end_at"):
        # the episode ran out of offered items before a row reached its quota: it cannot "select exactly the required number"
        for b in range(B):
            if fins[b] is None:
                acts = ep.executed(b)
                ctx.evaluation()
                ctx.violation(sig_of(cfg, rule="no_item_offered_before_quota", family=case.get("family", "gen")), f"after {len(acts)} of {insts[b]['k']} selections no item is offered any more although {len(ep.final_mask[b]) - len(set(acts)) if hasattr(ep, 'final_mask') else '?'} items are unselected", dict(row=b, inst=insts[b], actions=acts))
                return

    for b in range(B):
        if fins[b] is None:
            continue
        acts = ep.executed(b)
        k = insts[b]["k"]
        if "C08" in monitors:
            ctx.evaluation()
            ctx.count("c08_selections_checked")
            ctx.nontrivial_case(dict(i=insts[b], a=acts))
            if len(acts) != k:
                ctx.violation(sig_of(cfg, rule="finish_at_quota", family=case.get("family", "gen")), f"episode finished after {len(acts)} selections, quota {k}", dict(row=b, inst=insts[b], actions=acts))
            if len(set(acts)) != len(acts):
                ctx.violation(sig_of(cfg, rule="distinct"), f"duplicate selections {acts}", dict(row=b, inst=insts[b], actions=acts))
            if name in ("dpp", "mdpp"):
                bad = [a for a in acts if not insts[b]["allowed"][a]]
                if bad:
                    ctx.violation(sig_of(cfg, rule="forbidden"), f"forbidden cells selected (keep-out/probe): {bad}", dict(row=b, inst=insts[b], actions=acts))
                if name == "dpp":
                    # the probing port (an index in the instance) is forbidden whatever the instance's initial mask says
                    pidx = set(int(x) for x in torch.as_tensor(td_keep["probe"][b]).reshape(-1).tolist())
                    badp = [a for a in acts if a in pidx]
                    ctx.count("c08_dpp_probe_checks")
                    if badp:
                        ctx.violation(sig_of(cfg, rule="probe_selected"), f"probing port selected: {badp}", dict(row=b, inst=insts[b], actions=acts))
                if name == "mdpp":
                    badp = [a for a in acts if insts[b]["probe"][a]]
                    if badp:
                        ctx.violation(sig_of(cfg, rule="probe_selected"), f"probing ports selected: {badp}", dict(row=b, inst=insts[b], actions=acts))
            if b == 0:
                ctx.sample(dict(case=case, actions=acts, quota=k))
        # live features + reward
        if name == "flp":
            locs = insts[b]["locs"]
            for t in range(min(len(acts), len(ep.states))):
                chosen = acts[: t + 1]
                ref = [min(math.hypot(locs[i][0] - locs[c][0], locs[i][1] - locs[c][1]) for c in chosen) for i in range(len(locs))]
                if "C08" in monitors:
                    got = ep.states[t]["distances"][b].tolist()
                    ctx.count("c08_feature_checks")
                    if max(abs(x - y) for x, y in zip(got, ref)) > 1e-5:
                        ctx.violation(sig_of(cfg, rule="live_distances"), f"nearest-facility distances after step {t} differ from recomputation", dict(row=b, inst=insts[b], actions=chosen, got=got, ref=ref))
                        break
            if "C03" in monitors and ep.reward is not None:
                ref = -math.fsum(min(math.hypot(locs[i][0] - locs[c][0], locs[i][1] - locs[c][1]) for c in acts) for i in range(len(locs)))
                got = float(ep.reward.reshape(B, -1)[b, 0])
                ctx.evaluation(); ctx.count("c03_rewards_checked"); ctx.nontrivial_case(dict(i=insts[b], a=acts))
                if abs(got - ref) > tol_reward(ref):
                    ctx.violation(sig_of(cfg, q="reward", padded=bool(pad and pad[b] > 0) if pad else False), f"reward {got} != -sum of nearest-facility distances {ref}", dict(row=b, inst=insts[b], actions=acts))
        elif name == "mcp":
            mem, w = insts[b]["membership"], insts[b]["weights"]
            for t in range(min(len(acts), len(ep.states))):
                cov = set(it for c in acts[: t + 1] for it in mem[c])
                ref = [0.0 if (i + 1) in cov else w[i] for i in range(len(w))]
                if "C08" in monitors:
                    got = ep.states[t]["weights"][b].tolist()
                    ctx.count("c08_feature_checks")
                    if any(abs(x - y) > 1e-6 for x, y in zip(got, ref)):
                        ctx.violation(sig_of(cfg, rule="live_weights"), f"uncovered item weights after step {t} differ from recomputation", dict(row=b, inst=insts[b], actions=acts[: t + 1], got=got, ref=ref))
                        break
            if "C03" in monitors and ep.reward is not None:
                cov = set(it for c in acts for it in mem[c])
                ref = math.fsum(w[i - 1] for i in cov)
                got = float(ep.reward.reshape(B, -1)[b, 0])
                ctx.evaluation(); ctx.count("c03_rewards_checked"); ctx.nontrivial_case(dict(i=insts[b], a=acts))
                if abs(got - ref) > tol_reward(ref):
                    ctx.violation(sig_of(cfg, q="reward"), f"reward {got} != covered weight {ref}", dict(row=b, inst=insts[b], actions=acts))


# ==========================================================================================
# FFSP in multi-start (POMO) mode: rows s*B+b use the s-th permutation of the machine visiting order
# ==========================================================================================
def ffsp_pomo_case(ctx, case, monitors):
    import math as _m

    from rl4co.utils.ops import batchify
    from vlib.episode import choose, row_done

    cfg, B, seed, Sn = case["cfg"], case["B"], case["s"], case["starts"]
    env = envzoo.make_other(cfg)
    torch.manual_seed(seed)
    td_in = env.generator(batch_size=[B])
    insts = [S.FlowShop.extract(td_in, b, cfg["stages"], cfg["mas"]) for b in range(B)]
    Sn = min(Sn, _m.factorial(cfg["mas"]))
    td = env.reset(td_in.clone())
    td = batchify(td, Sn)
    td = env.pre_step(td)
    R = B * Sn
    gen = torch.Generator().manual_seed(seed)
    names = [["uniform", "first_true", "last_true"][i % 3] for i in range(R)]
    actions, t = [], 0
    bound = max(S.FlowShop.step_bound(i) for i in insts) + 5
    ctx.count("episodes")
    ctx.count("c07_ffsp_multistart_runs")
    while not bool(row_done(td).all()) and t < bound:
        mask = td["action_mask"].reshape(R, -1).bool()
        if bool((~mask.any(-1)).any()):
            ctx.evaluation()
            ctx.violation(sig_of(cfg, q="dead_end", mode="multistart"), f"FFSP multi-start: a row has no feasible action at step {t}", dict(B=B, starts=Sn))
            return
        a = choose(names, mask, td, gen)
        actions.append(a.clone())
        td.set("action", a)
        td = env.step(td)["next"]
        t += 1
    if not bool(row_done(td).all()):
        ctx.evaluation()
        ctx.violation(sig_of(cfg, q="step_bound", mode="multistart"), f"FFSP multi-start episode not finished after {t} steps", dict(B=B, starts=Sn))
        return
    rew = td["reward"].reshape(R) if "reward" in td.keys() else None
    for r in range(R):
        b = r % B
        sch = td["schedule"][r].tolist()
        v, mk = S.FlowShop.schedule_violations(insts[b], sch)
        ctx.evaluation()
        ctx.count("c07_schedules_checked")
        ctx.count("c07_ffsp_multistart_rows")
        for rule, info in v:
            ctx.violation(sig_of(cfg, rule=rule, flatten=cfg["flatten"], mode="multistart"), f"invalid flow-shop schedule in multi-start mode (row {r} = start {r // B} of instance {b}): {rule}: {info}", dict(row=r, inst=insts[b], schedule=sch))
            return
        if rew is not None and float(rew[r]) != -float(mk):
            ctx.violation(sig_of(cfg, q="reward", rule="makespan", mode="multistart"), f"reward {float(rew[r])} != -makespan {-mk} (row {r})", dict(row=r, inst=insts[b]))
            return
        ctx.nontrivial_case(dict(i=insts[b], s=sch))


# ==========================================================================================
# scheduling envs decoded by the bundled policy (its own decode loop and action bookkeeping)
# ==========================================================================================
def sched_policy_case(ctx, case, monitors):
    """L2DPolicy decodes FJSP / JSSP batches; the actions it RETURNS are replayed by the reference simulator on the instance
    as handed over: they must be executable, complete the schedule, and the returned reward must be minus its makespan."""
    from vlib import policies

    cfg, B, seed = case["cfg"], case["B"], case["s"]
    name = cfg["env"]
    env = envzoo.make_other(cfg)
    torch.manual_seed(seed)
    td_in = env.generator(batch_size=[B])
    td0 = env.reset(td_in.clone())
    insts = [S.JobShop.extract(td0.clone(), b) for b in range(B)]
    pol = policies.make("l2d", env, seed=case.get("wseed", 0))
    dec = S.fjsp_decode(cfg["mas"]) if name == "fjsp" else S.jssp_decode()
    sig = sig_of(cfg, driver="policy:l2d", decode=case["decode"], mask_no_ops=cfg["mask_no_ops"])
    try:
        with torch.no_grad():
            torch.manual_seed(seed + 1)
            out = pol(td0.clone(), env, phase="test", decode_type=case["decode"], return_actions=True)
    except Exception as e:
        ctx.evaluation()
        ctx.violation(dict(sig, q="policy_raises", exc=type(e).__name__), f"L2D forward raised {type(e).__name__}: {str(e)[:160]}", None)
        return
    ctx.count("episodes")
    ctx.count("c07_policy_decodes")
    acts_all, rew = out["actions"], out["reward"].reshape(B, -1)[:, 0]
    for b in range(B):
        acts = [int(a) for a in acts_all[b].tolist()]
        s2, f2, m2, done2, err = S.JobShop.simulate(insts[b], acts, dec, not cfg["mask_no_ops"])
        ctx.evaluation()
        ctx.count("c07_policy_rows")
        if err is not None or not done2:
            ctx.violation(dict(sig, rule="returned_actions_not_executable"), f"the action sequence returned by the policy cannot be executed on its instance: {err or 'schedule not finished'}", dict(row=b, inst=insts[b], actions=acts))
            return
        mk = max(f for f, p in zip(f2, insts[b]["pad"]) if not p and f is not None)
        if abs(float(rew[b]) + mk) > 1e-4 * max(1.0, abs(mk)):
            ctx.violation(dict(sig, q="reward", rule="makespan_of_returned_actions"), f"policy reports reward {float(rew[b])}, the schedule of its returned actions has makespan {mk}", dict(row=b, inst=insts[b], actions=acts))
            return
        ctx.nontrivial_case(dict(i=insts[b], a=acts))


def smtwtp_multistart_case(ctx, case, monitors):
    """SMTWTP episodes whose first move is handed out by the environment's own start rule (env.select_start_nodes, what
    multi-start decoding / POMO / active search use without consulting the mask), the rest mask-confined: every row must be a
    permutation of the jobs 1..n, the dummy node 0 never scheduled, the reward minus the weighted tardiness of that order."""
    from rl4co.utils.ops import batchify
    from vlib.episode import choose, row_done

    cfg, B, seed, k = case["cfg"], case["B"], case["s"], case["k"]
    env = envzoo.make_other(cfg)
    torch.manual_seed(seed)
    td_in = env.generator(batch_size=[B])
    td0 = env.reset(td_in.clone())
    n = td0["action_mask"].shape[-1] - 1  # nodes of the reset state minus the dummy start node
    k = int(env.get_num_starts(td0)) if k == "default" else int(k)
    sig = sig_of(cfg, mode="multistart")
    try:
        a0 = env.select_start_nodes(td0.clone(), num_starts=k)
    except Exception as e:
        ctx.evaluation()
        ctx.violation(dict(sig, q="select_start_nodes_raises", exc=type(e).__name__), f"select_start_nodes(k={k}) raised {type(e).__name__}: {str(e)[:160]}", None)
        return
    td = batchify(td0.clone(), k)
    R = B * k
    ctx.count("episodes")
    ctx.count("c07_smtwtp_multistart_runs")
    gen = torch.Generator().manual_seed(seed)
    names = [["uniform", "first_true", "last_true"][i % 3] for i in range(R)]
    seqs = [[int(a0[r])] for r in range(R)]
    td.set("action", a0.clone())
    td = env.step(td)["next"]
    t = 1
    while not bool(row_done(td).all()) and t < n + 3:
        mask = td["action_mask"].reshape(R, -1).bool()
        live = ~row_done(td).reshape(R)
        if bool((~mask.any(-1) & live).any()):
            ctx.evaluation()
            ctx.violation(dict(sig, q="dead_end"), f"SMTWTP multi-start: an unfinished row has no feasible action at step {t}", dict(B=B, k=k))
            return
        a = choose(names, torch.where(mask.any(-1, keepdim=True), mask, torch.ones_like(mask)), td, gen)
        for r in range(R):
            if bool(live[r]):
                seqs[r].append(int(a[r]))
        td.set("action", a)
        td = env.step(td)["next"]
        t += 1
    for r in range(R):
        ctx.evaluation()
        ctx.count("c07_schedules_checked")
        ctx.count("c07_smtwtp_multistart_rows")
        if 0 in seqs[r]:
            ctx.violation(dict(sig, rule="dummy_scheduled"), f"row {r} (start {r // B} of instance {r % B}): the dummy start node 0 is scheduled: {seqs[r]}", dict(row=r, seq=seqs[r], k=k))
            return
        if sorted(seqs[r]) != list(range(1, n + 1)):
            ctx.violation(dict(sig, rule="not_a_permutation"), f"row {r}: episode {seqs[r]} is not a permutation of the jobs 1..{n}", dict(row=r, seq=seqs[r], k=k))
            return
        ctx.nontrivial_case(dict(s=seqs[r], i=td_in["job_due_time"][r % B].tolist()))


def jobshop_multistart_case(ctx, case, monitors):
    """FJSP / JSSP episodes whose first move is handed out by the environment's own start rule (env.select_start_nodes: random
    eligible (job, machine) pairs, one set per instance), the rest mask-confined. Row r of the expanded batch is instance r mod B:
    its forced start must be admitted by ITS instance's mask, and the finished row must be a valid schedule of that instance
    (every operation once, on an eligible machine, for its processing time there) by the reference simulator."""
    from rl4co.utils.ops import batchify
    from vlib.episode import choose, row_done

    cfg, B, seed, k = case["cfg"], case["B"], case["s"], int(case["k"])
    name = cfg["env"]
    env = envzoo.make_other(cfg)
    torch.manual_seed(seed)
    td_in = env.generator(batch_size=[B])
    td0 = env.reset(td_in.clone())
    insts = [S.JobShop.extract(td0.clone(), b) for b in range(B)]
    dec = S.fjsp_decode(cfg["mas"]) if name == "fjsp" else S.jssp_decode()
    sig = sig_of(cfg, mode="multistart", mask_no_ops=cfg["mask_no_ops"])
    mask0 = td0["action_mask"].reshape(B, -1).bool()
    try:
        torch.manual_seed(seed + 3)
        a0 = env.select_start_nodes(td0.clone(), num_starts=k)
    except Exception as e:
        ctx.evaluation()
        ctx.violation(dict(sig, q="select_start_nodes_raises", exc=type(e).__name__), f"select_start_nodes(k={k}) raised {type(e).__name__}: {str(e)[:160]}", None)
        return
    R = B * k
    ctx.count("episodes")
    ctx.count("c07_jobshop_multistart_runs")
    if a0.numel() != R:
        ctx.evaluation()
        ctx.violation(dict(sig, q="start_shape"), f"select_start_nodes(k={k}) returned {tuple(a0.shape)} for batch {B}", None)
        return
    for r in range(R):
        ctx.evaluation()
        ctx.count("c07_forced_starts_checked")
        if not bool(mask0[r % B, int(a0[r])]):
            ctx.violation(dict(sig, rule="forced_start_not_eligible"), f"row {r} (start {r // B} of instance {r % B}) is started with action {int(a0[r])}, which its instance's mask forbids (an ineligible machine / unavailable job)", dict(row=r, B=B, k=k, inst=insts[r % B]))
            return
    td = batchify(td0.clone(), k)
    gen = torch.Generator().manual_seed(seed)
    names = [["uniform", "first_true", "last_true"][i % 3] for i in range(R)]
    seqs = [[int(a0[r])] for r in range(R)]
    td.set("action", a0.clone())
    try:
        td = env.step(td)["next"]
        t, bound = 1, max(S.JobShop.step_bound(i) for i in insts) + 5
        while not bool(row_done(td).all()) and t < bound:
            mask = td["action_mask"].reshape(R, -1).bool()
            live = ~row_done(td).reshape(R)
            if bool((~mask.any(-1) & live).any()):
                ctx.evaluation()
                ctx.violation(dict(sig, q="dead_end"), f"multi-start: an unfinished row has no feasible action at step {t}", dict(B=B, k=k))
                return
            a = choose(names, torch.where(mask.any(-1, keepdim=True), mask, torch.ones_like(mask)), td, gen)
            for r in range(R):
                if bool(live[r]):
                    seqs[r].append(int(a[r]))
            td.set("action", a)
            td = env.step(td)["next"]
            t += 1
    except Exception as e:
        ctx.evaluation()
        ctx.violation(dict(sig, q="step_raises", exc=type(e).__name__), f"env.step raised {type(e).__name__} in a multi-start episode: {str(e)[:160]}", dict(B=B, k=k))
        return
    for r in range(R):
        b = r % B
        s2, f2, m2, done2, err = S.JobShop.simulate(insts[b], seqs[r], dec, not cfg["mask_no_ops"])
        ctx.evaluation()
        ctx.count("c07_schedules_checked")
        ctx.count("c07_jobshop_multistart_rows")
        if err is not None or not done2:
            ctx.violation(dict(sig, rule="multistart_schedule_invalid"), f"row {r} (instance {b}): the episode is not a valid schedule of its instance: {err or 'schedule not finished'}", dict(row=r, inst=insts[b], actions=seqs[r]))
            return
        ctx.nontrivial_case(dict(i=insts[b], a=seqs[r]))
