"""C16 — training losses are the stated policy-gradient surrogates, with their gradients.

The real models are trained by the real RL4COTrainer.fit (tiny data, several epochs). Hooks attached from the
harness observe every training step:
  REINFORCE family (REINFORCE x baselines, AttentionModel/warm-up rollout, A2C, POMO): wrapper on model.calculate_loss
  SymNCO: wrapper on model.shared_step + tap on the policy call
  PPO: wrapper on model.manual_backward + taps on the policy and critic calls
At each step the monitor recomputes the reference surrogate from the tapped rollout tensors with ITS OWN model of the
baseline (EMA recurrences kept by the monitor, ground-truth (instance, augmentation, start) labels derived from the
row layout and cross-checked on the data), compares the loss value, and compares d loss / d theta with the gradient
of the reference (torch.autograd.grad on both, retain_graph, so training itself is undisturbed).
"""
from __future__ import annotations

import os
import shutil
import tempfile

import torch
import torch.nn.functional as F

from vlib import policies


def params_of(*mods):
    ps = []
    for m in mods:
        if m is not None:
            ps += [p for p in m.parameters() if p.requires_grad]
    return ps


def grads(loss, ps):
    if not isinstance(loss, torch.Tensor) or not loss.requires_grad:
        return [None] * len(ps)
    return torch.autograd.grad(loss, ps, retain_graph=True, allow_unused=True)


def grad_diff(ga, gb):
    worst, scale = 0.0, 0.0
    for a, b in zip(ga, gb):
        if a is None and b is None:
            continue
        a = torch.zeros_like(b) if a is None else a
        b = torch.zeros_like(a) if b is None else b
        worst = max(worst, float((a - b).abs().max()))
        scale = max(scale, float(b.abs().max()))
    return worst, scale


class StepMonitor:
    def __init__(self, ctx, sig, case):
        self.ctx, self.sig, self.case = ctx, sig, case
        self.last = None
        self.step = 0
        self.ema = None  # monitor's own exponential baseline state
        self.stop = False

    def v(self, q, msg, detail=None):
        self.ctx.violation(dict(self.sig, q=q), f"training step {self.step}: {msg}", dict(case=self.case, step=self.step, **(detail or {})))
        self.stop = True  # one report per run

    def compare(self, loss_lib, loss_ref, ps, what="loss", ll=None, wtol=1e-5):
        """loss value; d loss / d log-likelihood per rollout (= the weight the surrogate gives each rollout: tight, no
        Jacobian amplification); d loss / d theta (looser: the parameter gradient is a small residual of large cancelling
        per-rollout terms, so 1-ulp differences in the advantages are amplified by float32 conditioning)."""
        ctx = self.ctx
        ctx.evaluation()
        ctx.count("c16_steps_checked")
        a, b = float(loss_lib), float(loss_ref)
        if not (abs(a - b) <= 1e-4 * max(1.0, abs(b))):
            self.v("loss_value", f"{what} {a} != reference surrogate {b}")
            return False
        if ll is not None and ll.requires_grad:
            wa = torch.autograd.grad(loss_lib, [ll], retain_graph=True, allow_unused=True)[0]
            wb = torch.autograd.grad(loss_ref, [ll], retain_graph=True, allow_unused=True)[0]
            wa = torch.zeros_like(ll) if wa is None else wa
            wb = torch.zeros_like(ll) if wb is None else wb
            ctx.count("c16_rollout_weights_compared", int(ll.numel()))
            if float((wa - wb).abs().max()) > wtol * max(1e-3, float(wb.abs().max())) + 1e-8:
                r = int((wa - wb).abs().reshape(-1).argmax())
                self.v("rollout_weight", f"d {what} / d log-likelihood of rollout {r} is {float(wa.reshape(-1)[r]):.6g}, the reference surrogate weights it {float(wb.reshape(-1)[r]):.6g}")
                return False
        ga, gb = grads(loss_lib, ps), grads(loss_ref, ps)
        self.last = (ps, [None if g is None else g.detach().clone() for g in gb])  # what must reach .grad
        d, s = grad_diff(ga, gb)
        ctx.count("c16_gradients_compared")
        if d > 2e-2 * max(1e-3, s) + 1e-6:
            self.v("gradient", f"gradient of the {what} differs from the gradient of the reference surrogate by {d:.3g} (scale {s:.3g})")
            return False
        if s > 0:
            ctx.count("c16_nonzero_gradients")
        return True


def check_dot_grad(mon, what):
    """after the real backward pass: the gradient that REACHED the parameters (.grad, what the optimizer consumes) must be
    the gradient of this step's reference surrogate (stale / accumulated gradients show up here, not in autograd.grad)."""
    if mon.stop or mon.last is None:
        return
    ps, gref = mon.last
    mon.last = None
    have = [p.grad for p in ps]
    d, s = grad_diff(have, gref)
    mon.ctx.evaluation()
    mon.ctx.count("c16_dot_grad_checked")
    if d > 2e-2 * max(1e-3, s) + 1e-6:
        mon.v("param_grad_after_backward", f"after the backward pass of the {what}, .grad of the parameters differs from the gradient of this step's reference surrogate by {d:.3g} (scale {s:.3g}): stale or accumulated gradients reach the optimizer")


def hook_after_backward(model, mon, what):
    orig = model.on_after_backward

    def wrapped(*a, **kw):
        check_dot_grad(mon, what)
        return orig(*a, **kw)

    model.on_after_backward = wrapped


def hook_reinforce(model, mon, kind, B_hint=None):
    """kind in no / mean / exponential / rollout / critic / shared."""
    orig = model.calculate_loss
    critic_tap = {}
    bl = model.baseline
    inner = getattr(bl, "baseline", bl)
    if kind in ("critic", "warmup_critic"):
        cr = inner.critic
        o_forward = cr.forward

        def cforward(*a, **kw):
            out = o_forward(*a, **kw)
            critic_tap["v"] = out
            return out

        cr.forward = cforward
    frozen = {}
    if kind == "rollout" and hasattr(inner, "_update_policy"):
        # the monitor's own model of the rollout baseline: a frozen copy of the policy taken whenever the baseline is rebuilt
        import copy

        o_update = inner._update_policy

        def update(policy, *a, **kw):
            frozen["policy"] = copy.deepcopy(policy)
            mon.ctx.count("c16_rollout_baseline_rebuilds")
            return o_update(policy, *a, **kw)

        inner._update_policy = update
        o_shared = model.shared_step

        def shared_step(batch, *a, **kw):
            # env.reset consumes the batch object (torchrl resets in place): keep the instances as handed over
            frozen["instances"] = batch.exclude("extra").clone() if "extra" in batch.keys() else None
            return o_shared(batch, *a, **kw)

        model.shared_step = shared_step
    warm_n = getattr(bl, "n_epochs", None)
    # decay factors as CONFIGURED by the case (documented defaults 0.8; "mean" = decay 0), not as found on the library's objects
    warm_beta = mon.case.get("exp_beta", 0.8) if kind == "rollout" else getattr(getattr(bl, "warmup_baseline", None), "beta", 0.8)
    beta = (0.0 if kind == "mean" else mon.case.get("beta", 0.8)) if kind in ("exponential", "mean") else None

    scale = mon.case.get("reward_scale")
    hist = []  # every advantage value the scaler has been shown so far (the documented running statistics are over all of them)
    cond = {"max": 1.0}

    def wtol_scaled():
        return 2e-4 + 4 * 1.2e-7 * cond["max"]

    def scale_adv(a):
        """documented transform of the advantage (reward_scale): None -> as is; int -> / int; 'norm' -> (a - running mean) / running
        std; 'scale' -> a / running std; running statistics = mean and sample std of ALL advantages seen so far incl. this batch"""
        if scale is None:
            return a
        if isinstance(scale, int):
            return a / scale
        hist.extend(a.reshape(-1).double().tolist())
        h = torch.tensor(hist, dtype=torch.float64)
        mu, sd = h.mean(), (h.std(unbiased=True) if h.numel() > 1 else torch.tensor(float("nan"), dtype=torch.float64))
        eps = torch.finfo(torch.float32).eps
        mon.ctx.count("c16_scaled_advantage_steps")
        # float32 conditioning of the running statistics (the library keeps them in the advantages' dtype): the first batches are
        # accumulated from mean 0, so M2 is a cancelling sum whose relative error is about eps32 * (1 + (mean / std)^2). The
        # comparison tolerance widens by that much and no more (a spread of 0.05 around -4.2 gave 4.4e-4 in thorough seed 6)
        if h.numel() > 1 and float(sd) > 0:
            cond["max"] = max(cond["max"], 1.0 + float((mu / sd) ** 2))
        if scale == "norm":
            return ((a.double() - mu) / (sd + eps)).float()
        return (a.double() / (sd + eps)).float()

    def wrapped(td, batch, policy_out, reward=None, log_likelihood=None):
        R = reward if reward is not None else policy_out["reward"]
        LL = log_likelihood if log_likelihood is not None else policy_out["log_likelihood"]
        out = orig(td, batch, policy_out, reward, log_likelihood)
        if mon.stop:
            return out
        mon.step += 1
        ctx = mon.ctx
        epoch = int(model.current_epoch)
        ps = params_of(model.policy)
        if R.requires_grad:
            mon.v("reward_requires_grad", "the reward carries a gradient")
            return out
        blv = out.get("bl_val")
        if isinstance(blv, torch.Tensor) and blv.requires_grad:
            mon.v("baseline_requires_grad", "the baseline value carries a gradient into the policy loss")
            return out
        bl_loss_ref = 0.0
        Rd = R.detach()
        if kind == "no":
            b = torch.zeros(())
        elif kind in ("mean", "exponential"):
            m = Rd.mean()
            mon.ema = m if mon.ema is None else beta * mon.ema + (1 - beta) * m
            b = mon.ema
        elif kind == "rollout":
            # warm-up: alpha_e = min(1, e / n) during epoch e; value = alpha * rollout + (1 - alpha) * exponential
            alpha = min(1.0, epoch / float(warm_n)) if warm_n else 1.0
            extra = batch.get("extra", None)
            if alpha < 1:
                m = Rd.mean()
                mon.ema = m if mon.ema is None else warm_beta * mon.ema + (1 - warm_beta) * m
            if alpha == 0:
                b = mon.ema
                ctx.count("c16_warmup_alpha0_steps")
            elif extra is None:
                mon.v("rollout_value_missing", f"epoch {epoch}: warm-up weight {alpha} > 0 but the batch carries no rollout-baseline value")
                return out
            if extra is not None and frozen.get("policy") is not None and frozen.get("instances") is not None:
                # the value the batch carries must be the greedy reward of the policy the baseline was last built from
                from vlib.c17impl import MARGIN, _greedy

                was = model.policy.training
                ref, marg = _greedy(frozen["policy"], model.env, frozen["instances"], with_margin=True)
                model.policy.train(was)
                ex = extra.detach().reshape(-1)
                for i in range(ex.shape[0]):
                    if marg[i] < MARGIN:
                        continue
                    ctx.count("c16_rollout_values_checked")
                    if abs(float(ex[i]) - float(ref.reshape(-1)[i])) > 1e-4 * max(1.0, abs(float(ref.reshape(-1)[i]))):
                        mon.v("rollout_value", f"epoch {epoch}: rollout-baseline value {float(ex[i])} used for an instance != greedy reward {float(ref.reshape(-1)[i])} of the policy the baseline was built from")
                        return out
            if extra is not None:
                # one baseline value per instance, paired by position: the reference works on the flat per-instance vector (a
                # [B, 1]-shaped value next to [B] rewards would broadcast to B x B "advantages" in the library's expression)
                if extra.numel() != Rd.numel():
                    mon.v("rollout_value_shape", f"the batch carries {extra.numel()} rollout-baseline values for {Rd.numel()} rollouts")
                    return out
                extra = extra.detach().reshape(Rd.shape)
            if alpha == 0 or extra is None:
                pass
            elif alpha < 1:
                b = alpha * extra.detach() + (1 - alpha) * mon.ema
                ctx.count("c16_warmup_mixture_steps")
                mon.sig = dict(mon.sig, phase="warmup_mixture")
            else:
                b = extra.detach()
                ctx.count("c16_rollout_steps")
                mon.sig = dict(mon.sig, phase="after_warmup")
        elif kind == "warmup_critic":
            # WarmupBaseline around a critic: value = alpha * critic + (1 - alpha) * exponential, loss = alpha * mse, with
            # alpha_e = min(1, e / n) during epoch e (also AFTER the warm-up: it must stay at 1)
            alpha = min(1.0, epoch / float(warm_n))
            v = critic_tap.get("v")
            if v is None and alpha > 0:
                ctx.count("c16_critic_tap_missed")
                return out
            if alpha < 1:
                m = Rd.mean()
                mon.ema = m if mon.ema is None else warm_beta * mon.ema + (1 - warm_beta) * m
            if alpha == 0:
                b = mon.ema
            else:
                vv = v.squeeze(-1)
                b = alpha * vv.detach() + ((1 - alpha) * mon.ema if alpha < 1 else 0.0)
                bl_loss_ref = alpha * F.mse_loss(vv, Rd)
                ps = ps + params_of(inner.critic)
            ctx.count("c16_warmup_critic_steps")
            if epoch > warm_n:
                ctx.count("c16_steps_after_warmup_end")
            mon.sig = dict(mon.sig, phase="warmup" if alpha < 1 else "after_warmup")
        elif kind == "critic":
            v = critic_tap.get("v")
            if v is None:
                ctx.count("c16_critic_tap_missed")
                return out
            v = v.squeeze(-1)
            b = v.detach()
            bl_loss_ref = F.mse_loss(v, Rd)
            ps = ps + params_of(inner.critic)
        elif kind == "shared":
            # ground truth: flat rollout row r of the policy output belongs to instance r % B (start r // B)
            flatR, flatLL = policy_out["reward"].detach(), policy_out["log_likelihood"]
            Bn = td.batch_size[0]
            S = flatR.shape[0] // Bn
            acts = policy_out.get("actions")
            if acts is not None:
                first = acts[:, 0].reshape(S, Bn)
                if not bool((first == first[:, :1]).all()) and False:
                    pass
            Rg = flatR.reshape(S, Bn)
            mean_b = Rg.mean(0, keepdim=True)
            adv = (Rg - mean_b)
            within = adv.mean(0).abs().max()
            if float(within) > 1e-5:
                mon.v("advantage_mean", f"reference advantages do not average to zero per instance ({float(within)})")
                return out
            lib_adv = (R - out["bl_val"]).detach() if isinstance(out.get("bl_val"), torch.Tensor) else None
            if lib_adv is not None:
                # library layout [B, S] (after its own regrouping): its per-instance means must vanish and match ours
                if lib_adv.shape == (Bn, S):
                    if float(lib_adv.mean(1).abs().max()) > 1e-5:
                        mon.v("shared_advantage_not_centered", "shared-baseline advantages do not average to zero within an instance")
                        return out
                    if not torch.allclose(lib_adv, adv.t(), atol=1e-5):
                        mon.v("shared_regrouping", "the library's [instance, start] regrouping of rewards does not match the row layout (row r = start r//B of instance r%B)")
                        return out
                    ctx.count("c16_shared_groups_checked", Bn)
            # the library scales the [B, S]-shaped advantages: same values, the running statistics do not depend on the order
            ref = -(scale_adv(adv.t().contiguous()).t().reshape(-1) * flatLL).mean() if scale is not None else -(adv.reshape(-1) * flatLL).mean()
            mon.compare(out["loss"], ref, ps, ll=flatLL, wtol=wtol_scaled() if isinstance(scale, str) else 1e-5)
            ctx.nontrivial_case(dict(c=mon.case, step=mon.step))
            return out
        else:
            raise KeyError(kind)
        adv = scale_adv(Rd - b)
        ref = -(adv * LL).mean() + bl_loss_ref
        # running statistics: the library accumulates mean / M2 in float32 (relative error ~1e-5 on the standard deviation after a
        # few batches, seen at 2e-5 on the thorough tier), the monitor in float64: scaled advantages are compared at 2e-4
        mon.compare(out["loss"], ref, ps, ll=policy_out["log_likelihood"], wtol=wtol_scaled() if isinstance(scale, str) else 1e-5)
        ctx.nontrivial_case(dict(c=mon.case, step=mon.step))
        return out

    model.calculate_loss = wrapped


def hook_symnco(model, mon):
    pol = model.policy
    o_forward = pol.forward
    tap = {}

    def pforward(td, *a, **kw):
        out = o_forward(td, *a, **kw)
        tap["out"], tap["B_aug"] = out, td.batch_size[0]
        return out

    pol.forward = pforward
    orig = model.shared_step

    def wrapped(batch, batch_idx, phase, dataloader_idx=None):
        res = orig(batch, batch_idx, phase, dataloader_idx)
        if phase != "train" or mon.stop:
            return res
        mon.step += 1
        out = tap["out"]
        A = model.num_augment if model.num_augment > 1 else 1
        S = model.num_starts if model.num_starts and model.num_starts > 1 else 1
        R, LL = out["reward"].detach(), out["log_likelihood"]
        N = R.shape[0]
        B = N // (A * S)
        if B * A * S != N:
            mon.v("rows", f"{N} rollout rows for B x A x S = ? x {A} x {S}")
            return res
        # the documented weights as CONFIGURED for this case (defaults: alpha 0.2, beta 1), not as stored on the object
        beta_cfg = mon.case.get("sym_beta", 1.0)
        alpha_cfg = mon.case.get("sym_alpha", 0.2)
        # ground truth layout: augmentation first (rows a*B+b), then starts (rows s*(A*B) + a*B + b)
        Rg = R.reshape(S, A, B)
        LLg = LL.reshape(S, A, B)
        ref = 0.0
        if S > 1:
            ref = ref + (-((Rg - Rg.mean(0, keepdim=True)) * LLg).mean())
        if A > 1:
            ref = ref + beta_cfg * (-((Rg - Rg.mean(1, keepdim=True)) * LLg).mean())
            # invariance term (L_inv of the SymNCO paper): cosine similarity between the projected embeddings of the SAME
            # instance under augmentation 0 and augmentation a, summed over a >= 1, averaged over instances and nodes. The
            # augmented batch is laid out copy-major (row a*B + b is copy a of instance b), which is what the monitor uses
            pe = out["proj_embeddings"]
            if pe.shape[0] == A * B:
                peg = pe.reshape(A, B, *pe.shape[1:])
                sim = sum(torch.nn.functional.cosine_similarity(peg[0], peg[a], dim=-1) for a in range(1, A))
                ref = ref + alpha_cfg * sim.mean()
                mon.ctx.count("c16_symnco_invariance_terms")
            else:
                from rl4co.models.zoo.symnco.losses import invariance_loss

                ref = ref + alpha_cfg * invariance_loss(pe, A)
        mon.sig = dict(mon.sig, S_gt_1=S > 1, A_gt_1=A > 1, S_eq_A=(S == A))
        mon.compare(res["loss"], ref, params_of(model.policy), what="SymNCO loss", ll=LL)
        mon.ctx.nontrivial_case(dict(c=mon.case, step=mon.step))
        return res

    model.shared_step = wrapped


_ENT_TAP = {}


def _install_entropy_tap():
    """record the per-step distributions the policy hands to its entropy helper (the reference computes its own entropy, with
    its own gradient path, from them)"""
    import rl4co.models.common.constructive.base as cb

    if getattr(cb.calculate_entropy, "_verif_tap", False):
        return
    orig = cb.calculate_entropy

    def calc(logprobs):
        _ENT_TAP["logprobs"] = logprobs
        return orig(logprobs)

    calc._verif_tap = True
    cb.calculate_entropy = calc


def own_entropy(logprobs):
    """- sum_a p log p per step (0 log 0 = 0), summed over the steps of a rollout: [R, T, A] -> [R]"""
    lp = logprobs
    safe = torch.where(torch.isfinite(lp), lp, torch.zeros_like(lp))
    plogp = torch.where(torch.isfinite(lp), safe.exp() * safe, torch.zeros_like(lp))
    return -plogp.sum(-1).sum(1)


def hook_ppo(model, mon):
    pol, critic = model.policy, model.critic
    tap = {}
    _install_entropy_tap()
    o_p = pol.forward

    def pforward(td, *a, **kw):
        out = o_p(td, *a, **kw)
        tap["td"], tap["out"], tap["kw"] = td, out, kw
        return out

    pol.forward = pforward
    o_c = critic.forward

    def cforward(*a, **kw):
        out = o_c(*a, **kw)
        tap["v"] = out
        return out

    critic.forward = cforward
    orig = model.manual_backward

    def wrapped(loss, *a, **kw):
        if not mon.stop and "actions" in tap.get("kw", {}):
            mon.step += 1
            cfg = dict(model.ppo_cfg)
            cfg.update({k: mon.case[k] for k in ("entropy_lambda", "vf_lambda", "clip_range") if mon.case.get(k) is not None})  # what was configured, not what the object stored
            sub, out, v = tap["td"], tap["out"], tap["v"]
            ll, ent = out["log_likelihood"], out["entropy"]
            old, R = sub["logprobs"], sub["reward"].view(-1, 1)
            if old.requires_grad or R.requires_grad:
                mon.v("old_requires_grad", "old log-probs / rewards carry a gradient")
            else:
                # strict per-rollout pairing: every quantity as a column of one value per rollout (no broadcasting between a [B] and a [B, 1])
                nb = R.numel()
                if old.numel() != nb or v.numel() != nb or ll.shape[0] != nb:
                    mon.v("ppo_shapes", f"per-rollout quantities disagree in size: rewards {nb}, old log-probs {old.numel()}, values {v.numel()}, log-likelihood rows {ll.shape[0]}")
                    return orig(loss, *a, **kw)
                v = v.reshape(-1, 1)
                ratio = torch.exp(ll.sum(-1).reshape(-1) - old.reshape(-1)).view(-1, 1)
                adv = R - v.detach()
                if cfg["normalize_adv"]:
                    adv = (adv - adv.mean()) / (adv.std() + 1e-8)
                eps = cfg["clip_range"]
                sur = -torch.min(ratio * adv, ratio.clamp(1 - eps, 1 + eps) * adv).mean()
                d = v - R
                hub = torch.where(d.abs() <= 1.0, 0.5 * d * d, d.abs() - 0.5).mean()
                lp_steps = _ENT_TAP.get("logprobs")
                if lp_steps is not None and lp_steps.dim() == 3 and lp_steps.shape[0] == nb:
                    ent_ref = own_entropy(lp_steps)  # own entropy of the tapped step distributions, own gradient path
                    mon.ctx.count("c16_ppo_own_entropy")
                    if not torch.allclose(ent_ref.detach(), ent.detach().reshape(-1), atol=1e-4, rtol=1e-4):
                        mon.v("ppo_entropy_value", f"reported entropy {ent.detach().reshape(-1)[:3].tolist()} != entropy of the step distributions {ent_ref.detach()[:3].tolist()}")
                        return orig(loss, *a, **kw)
                else:
                    ent_ref = ent
                ref = sur + cfg["vf_lambda"] * hub - cfg["entropy_lambda"] * ent_ref.mean()
                mon.compare(loss, ref, params_of(pol, critic), what="PPO loss", ll=ll)
                mon.ctx.count("c16_ppo_minibatches")
                mon.ctx.nontrivial_case(dict(c=mon.case, step=mon.step))
        out = orig(loss, *a, **kw)
        check_dot_grad(mon, "PPO mini-batch loss")
        return out

    model.manual_backward = wrapped


def case(ctx, case):
    import rl4co.models as M
    from rl4co.utils.trainer import RL4COTrainer

    kind, name, seed = case["model"], case["env"], case["s"]
    env, O, cfg = policies.env_for(name, case.get("n", 6))
    torch.manual_seed(seed)
    bs = case.get("bs", 5)
    kw = dict(batch_size=bs, train_data_size=case.get("train", 15), val_data_size=6, test_data_size=6, optimizer_kwargs=dict(lr=1e-3))
    sig = dict(model=kind)
    mon = StepMonitor(ctx, sig, case)
    big = lambda: M.AttentionModelPolicy(env_name=env.name, embed_dim=128, num_encoder_layers=1, num_heads=4)
    small = lambda **k: policies.make("am", env, seed=seed % 7, **k)
    if kind.startswith("reinforce:"):
        b = kind.split(":")[1]
        pol = big() if b == "critic" else small()
        pol.train()
        bk = dict(n_epochs=case["warm"]) if (b == "rollout" and case.get("warm")) else {}
        if b == "rollout" and case.get("exp_beta") is not None:
            bk["exp_beta"] = case["exp_beta"]  # documented: decay of the exponential baseline used during warm-up
        if b == "exponential" and case.get("beta") is not None:
            bk["beta"] = case["beta"]
        if case.get("reward_scale") is not None:
            kw["reward_scale"] = case["reward_scale"]
            mon.sig = dict(mon.sig, reward_scale=str(case["reward_scale"]) if isinstance(case["reward_scale"], str) else "int")
        if b == "critic":
            from rl4co.models.rl.common.critic import create_critic_from_actor
            from rl4co.models.rl.reinforce.baselines import CriticBaseline

            model = M.REINFORCE(env, pol, baseline=CriticBaseline(create_critic_from_actor(pol)), **kw)
        else:
            model = M.REINFORCE(env, pol, baseline=b, baseline_kwargs=bk, **kw)
        if b == "rollout":
            mon.sig = dict(mon.sig, warmup_epochs_gt_1=bool(case.get("warm", 1) > 1))
        hook_reinforce(model, mon, b)
        hook_after_backward(model, mon, "REINFORCE loss")
    elif kind == "reinforce_warmup_critic":
        from rl4co.models.rl.common.critic import create_critic_from_actor
        from rl4co.models.rl.reinforce.baselines import CriticBaseline, WarmupBaseline

        pol = big()
        pol.train()
        model = M.REINFORCE(env, pol, baseline=WarmupBaseline(CriticBaseline(create_critic_from_actor(pol)), n_epochs=case.get("warm", 2)), **kw)
        hook_reinforce(model, mon, "warmup_critic")
        hook_after_backward(model, mon, "REINFORCE loss")
    elif kind == "a2c":
        pol = big()
        model = M.A2C(env, pol, **{k: v for k, v in kw.items() if k != "optimizer_kwargs"})
        hook_reinforce(model, mon, "critic")
        hook_after_backward(model, mon, "A2C loss")
    elif kind == "pomo":
        pol = policies.make("am_instnorm", env, seed=seed % 7)
        pol.train()
        if case.get("reward_scale") is not None:
            kw["reward_scale"] = case["reward_scale"]
            mon.sig = dict(mon.sig, reward_scale=str(case["reward_scale"]) if isinstance(case["reward_scale"], str) else "int")
        model = M.POMO(env, pol, num_starts=case.get("S", 3), num_augment=8, **kw)
        hook_reinforce(model, mon, "shared")
        hook_after_backward(model, mon, "POMO loss")
    elif kind == "symnco":
        pol = policies.make("symnco", env, seed=seed % 7)
        pol.train()
        sk = {}
        if case.get("sym_beta") is not None:
            sk["beta"] = case["sym_beta"]
        if case.get("sym_alpha") is not None:
            sk["alpha"] = case["sym_alpha"]
        if sk:
            mon.sig = dict(mon.sig, sym_weights="custom")
        model = M.SymNCO(env, pol, num_starts=case.get("S", 0), num_augment=case.get("A", 4), **sk, **kw)
        hook_symnco(model, mon)
        hook_after_backward(model, mon, "SymNCO loss")
    elif kind == "ppo":
        pol = big()
        if case.get("sched"):
            kw.update(lr_scheduler="MultiStepLR", lr_scheduler_kwargs=dict(milestones=[1], gamma=0.5))
        pk = {k: case[k] for k in ("entropy_lambda", "vf_lambda", "clip_range") if case.get(k) is not None}
        if pk:
            mon.sig = dict(mon.sig, ppo_cfg="custom")
        model = M.PPO(env, pol, mini_batch_size=case.get("mb", 3), ppo_epochs=2, normalize_adv=case.get("norm_adv", False), **pk, **kw)
        hook_ppo(model, mon)
    else:
        raise KeyError(kind)
    d = tempfile.mkdtemp(prefix="verif-c16-")
    cwd = os.getcwd()
    try:
        os.chdir(d)
        trainer = RL4COTrainer(matmul_precision="highest", max_epochs=case.get("epochs", 3), accelerator="cpu", devices=1, logger=False, enable_checkpointing=False, enable_progress_bar=False, enable_model_summary=False,
                               precision="32-true", default_root_dir=d, num_sanity_val_steps=0)
        trainer.fit(model)
        ctx.count("c16_fits")
    finally:
        os.chdir(cwd)
        shutil.rmtree(d, ignore_errors=True)
    if mon.step == 0:
        ctx.count("c16_hook_never_fired")
    ctx.sample(dict(case=case, steps=mon.step))
