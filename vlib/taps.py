"""Taps for policy-level monitors (C11-C15): attach from outside, record at the API boundary.

PolicyTap(policy) wraps, for the duration of a `with` block,
  * policy.decoder.forward            -> per-step (raw logits clone, mask clone) BEFORE process_logits overwrites the logits in place
  * the name `get_decoding_strategy` looked up by ConstructivePolicy.forward -> the DecodingStrategy instance of the call
  * strategy._select_best             -> its inputs (all rollouts) and outputs (the selection), same call
  * strategy.pre_decoder_hook         -> forced start actions
Every wrapper counts its hits; a monitor whose tap has zero hits must end inconclusive.
"""
from __future__ import annotations

import torch


class Record:
    def __init__(self):
        self.steps = []  # list of dict(logits, mask)
        self.strategy = None
        self.select_best = None  # dict(inp_logprobs, inp_actions, inp_reward, out_logprobs, out_actions, out_reward)
        self.start_actions = None
        self.td_after_pre = None
        self.hits = dict(decoder=0, strategy=0, select_best=0, pre_hook=0)


class PolicyTap:
    def __init__(self, policy, keep_logits=True, on_strategy=None):
        self.policy = policy
        self.rec = Record()
        self.keep_logits = keep_logits
        self.on_strategy = on_strategy  # callback(strategy, record): extra wrappers (e.g. beam search internals)

    def __enter__(self):
        import rl4co.models.common.constructive.base as base

        rec = self.rec
        dec = self.policy.decoder
        self._dec_forward = dec.forward
        keep = self.keep_logits

        def dec_forward(td, *a, **kw):
            out = self._dec_forward(td, *a, **kw)
            rec.hits["decoder"] += 1
            if keep and isinstance(out, tuple) and len(out) >= 2 and isinstance(out[0], torch.Tensor):
                logits, mask = out[0], out[1]
                if not isinstance(mask, torch.Tensor):
                    mask = None
                rec.steps.append(dict(logits=logits.detach().clone(), mask=None if mask is None else mask.clone(), done=td["done"].clone() if "done" in td.keys() else None))
            return out

        dec.forward = dec_forward
        self._base = base
        self._orig_get = base.get_decoding_strategy

        def get_strategy(*a, **kw):
            s = self._orig_get(*a, **kw)
            rec.strategy = s
            rec.hits["strategy"] += 1
            orig_sb = s._select_best

            def select_best(logprobs, actions, td, env):
                inp_reward = env.get_reward(td.clone(), actions.clone())
                out = orig_sb(logprobs, actions, td, env)
                rec.hits["select_best"] += 1
                rec.select_best = dict(inp_logprobs=logprobs.detach().clone(), inp_actions=actions.clone(), inp_reward=inp_reward.detach().clone(),
                                       out_logprobs=out[0].detach().clone(), out_actions=out[1].clone(), out_td=out[2], num_starts=s.num_starts)
                return out

            s._select_best = select_best
            orig_pre = s.pre_decoder_hook

            def pre_hook(td, env, *a, **kw):
                out = orig_pre(td, env, *a, **kw)
                rec.hits["pre_hook"] += 1
                if s.actions:
                    rec.start_actions = s.actions[0].clone()
                rec.td_after_pre = out[0].clone()
                return out

            s.pre_decoder_hook = pre_hook
            if self.on_strategy is not None:
                self.on_strategy(s, rec)
            return s

        base.get_decoding_strategy = get_strategy
        return rec

    def __exit__(self, *exc):
        self.policy.decoder.forward = self._dec_forward
        self._base.get_decoding_strategy = self._orig_get
        return False


def fingerprint(t: torch.Tensor):
    import hashlib

    return (tuple(t.shape), str(t.dtype), hashlib.sha1(t.detach().contiguous().cpu().numpy().tobytes()).hexdigest())


def td_fingerprint(td):
    return {str(k): fingerprint(td[k]) for k in sorted(td.keys(), key=str) if isinstance(td[k], torch.Tensor)}


def ulp32(x: float) -> float:
    """spacing of float32 numbers at magnitude x"""
    import math

    x = abs(float(x))
    return 2.0 ** (math.floor(math.log2(x)) - 23) if x > 0 and math.isfinite(x) else 2.0 ** -149


def logit_noise(rec, k=8.0):
    """float32 conditioning of a recorded decode: k ulp of the largest finite raw logit seen (log-probs computed from
    logits of magnitude 5e3 - unscaled CVRPTW - differ by ~1e-3 between batch layouts on correct code)"""
    m = 0.0
    for st in rec.steps:
        lg = st["logits"]
        f = lg[torch.isfinite(lg)]
        if f.numel():
            m = max(m, float(f.abs().max()))
    return k * ulp32(m) if m > 0 else 0.0


def td_to64(td):
    """copy of a TensorDict with every float32 leaf in float64"""
    td = td.clone()
    for k in list(td.keys()):
        v = td[k]
        if isinstance(v, torch.Tensor) and v.dtype == torch.float32:
            td[k] = v.double()
    return td


class Float64:
    """`with Float64(policy): ...` runs the same policy code in double precision (parameters float32 -> float64 -> float32 is
    exact). Used to decide whether a float32 discrepancy between two computations of the same quantity is conditioning
    (vanishes in float64: unscaled CVRPTW intermediates reach 1e4, float32 log-probs then differ by up to ~0.2 between batch
    layouts on correct code) or logic (persists)."""

    def __init__(self, *modules):
        self.modules = modules

    def __enter__(self):
        for m in self.modules:
            m.double()
        return self

    def __exit__(self, *exc):
        for m in self.modules:
            m.float()
        return False
