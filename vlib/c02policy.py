"""C02 at policy level: the decode loop of real policies must stop within the slowest row's step bound (it otherwise runs
on its max_steps safety cap) and must never be fed an all-masked row (NaN sanitizer on the log-probs)."""
from __future__ import annotations

import torch

from vlib import policies
from vlib.sweep import sig_of
from vlib.taps import PolicyTap


def case(ctx, case):
    name, n, B, seed = case["env"], case["n"], case["B"], case["s"]
    env, O, cfg = policies.env_for(name, n)
    pol = policies.make("am", env, seed=seed % 5)
    torch.manual_seed(seed)
    td_in = env.generator(batch_size=[B])
    td0 = env.reset(td_in.clone())
    insts = [O.extract(td_in, td0, b, env) for b in range(B)]
    bound = max(O.step_bound(i) for i in insts)
    n_steps = {"n": 0}
    o_step = env.step

    last = {}

    def step(td):
        n_steps["n"] += 1
        r = o_step(td)
        last["done"] = r["next"]["done"]
        return r

    env.step = step
    sig = sig_of(cfg, via="policy", decode=case["decode"])
    kw = dict(decode_type=case["decode"], **case.get("filt", {}))
    if case.get("filt"):
        sig["filter"] = "+".join(sorted(case["filt"]))
        ctx.count("c02_policy_filtered_forwards")
    if case["decode"].startswith("multistart"):
        kw["num_starts"] = case.get("k", 3)
    try:
        with torch.no_grad(), PolicyTap(pol, keep_logits=True) as rec:
            # production-size episodes run on the policy's OWN default safety cap (nothing passed): it must not cut them short
            cap = {} if case.get("default_cap") else dict(max_steps=4 * bound + 20)
            out = pol(td0.clone(), env, phase="test", return_actions=True, temperature=case.get("T", 1.0), **cap, **kw)
    except Exception as e:
        ctx.evaluation()
        ctx.violation(dict(sig, q="policy_raises", exc=type(e).__name__), f"policy forward raised {type(e).__name__}: {str(e)[:200]}", dict(B=B, n=n))
        return
    finally:
        env.step = o_step
    ctx.evaluation(B)
    ctx.count("c02_policy_forwards")
    ctx.count("c02_policy_env_steps", n_steps["n"])
    if case.get("default_cap"):
        sig["cap"] = "default"
        ctx.count("c02_policy_default_cap_forwards")
    if "done" in last and not bool(last["done"].all()):
        ctx.violation(dict(sig, q="decode_loop_left_unfinished"), f"the decode loop stopped after {n_steps['n']} env steps with {int((~last['done']).sum())} unfinished row(s) (bound of the slowest row: {bound}): it ran into its safety cap", dict(B=B, n=n))
        return
    if n_steps["n"] > bound:
        ctx.violation(dict(sig, q="decode_steps_exceed_bound"), f"the decode loop called env.step {n_steps['n']} times; the slowest instance of the batch needs at most {bound} steps", dict(B=B, n=n, actions=out["actions"][0].tolist()))
        return
    for st in rec.steps:
        m = st["mask"]
        if m is not None and bool((~m.reshape(m.shape[0], -1).bool().any(-1)).any()):
            ctx.violation(dict(sig, q="all_masked_row_decoded"), "a row with no feasible action was fed to the decoding strategy", dict(B=B, n=n))
            return
    if bool(torch.isnan(out["log_likelihood"]).any()) or bool(torch.isinf(out["log_likelihood"]).any()):
        ctx.violation(dict(sig, q="nan_loglik"), "log-likelihood contains NaN / inf", dict(B=B, n=n))
        return
    ctx.nontrivial_case(dict(c=case, a=out["actions"].tolist()))
