"""Core of the runtime-monitoring harness: case sharding, verdict, evidence, findings.

A check module (checks/cXX.py) exposes

    PROPERTY = "C01"
    LEVEL    = "exploration"
    RULE     = "<how cases are generated and what makes one non-trivial>"
    def cases(tier: str, seed: int) -> list[dict]      # JSON-able case descriptors
    def run_case(ctx: Ctx, case: dict) -> None         # runs REAL rl4co code under monitors
    MIN_NONTRIVIAL = {"quick": n, "thorough": m}       # starvation threshold -> inconclusive
    REQUIRED_COUNTERS = [...]                          # monitors that must have fired

The runner shards `cases` over worker subprocesses, merges what the monitors observed,
classifies violations against known_findings.json (by mechanism signature), writes
evidence/<id>.json and exits 0 / 1 / 2 (held / violation / inconclusive).
"""
from __future__ import annotations

import hashlib
import json
import os
import sys
import time
import traceback

ROOT = os.path.dirname(os.path.dirname(os.path.abspath(__file__)))
EVID_DIR = os.path.join(ROOT, "evidence")
REPLAY_DIR = os.path.join(ROOT, "replays")
FINDINGS_FILE = os.path.join(ROOT, "known_findings.json")


def jhash(obj) -> str:
    return hashlib.sha1(
        json.dumps(obj, sort_keys=True, default=str).encode()
    ).hexdigest()[:16]


def to_plain(x):
    """Make tensors / numpy / tuples JSON-able (used for samples and replay files)."""
    try:
        import torch

        if isinstance(x, torch.Tensor):
            return x.detach().cpu().tolist()
    except Exception:
        pass
    if isinstance(x, dict):
        return {str(k): to_plain(v) for k, v in x.items()}
    if isinstance(x, (list, tuple)):
        return [to_plain(v) for v in x]
    if isinstance(x, float):
        if x != x:
            return "nan"
        if x in (float("inf"), float("-inf")):
            return str(x)
        return x
    if isinstance(x, (int, str, bool)) or x is None:
        return x
    try:
        import numpy as np

        if isinstance(x, np.generic):
            return x.item()
        if isinstance(x, np.ndarray):
            return x.tolist()
    except Exception:
        pass
    return str(x)


class Ctx:
    """Per-worker observation context. Everything a monitor sees is counted here."""

    def __init__(self, prop: str, tier: str, seed: int):
        self.prop = prop
        self.tier = tier
        self.seed = seed
        self.counters: dict[str, int] = {}
        self.nontrivial: set[str] = set()
        self.samples: list = []
        self.violations: list[dict] = []
        self.ambiguous = 0
        self.evaluations = 0
        self.case = None  # the case descriptor currently running (for replay files)
        self.notes: list[str] = []

    # --- counting what monitors observed -------------------------------------------------
    def count(self, key: str, n: int = 1):
        self.counters[key] = self.counters.get(key, 0) + n

    def evaluation(self, n: int = 1):
        self.evaluations += n

    def nontrivial_case(self, obj):
        self.nontrivial.add(obj if isinstance(obj, str) and len(obj) == 16 else jhash(to_plain(obj)))

    def sample(self, obj, cap: int = 3):
        if len(self.samples) < cap:
            self.samples.append(to_plain(obj))

    def note(self, s: str):
        if s not in self.notes and len(self.notes) < 50:
            self.notes.append(s)

    # --- verdicts -----------------------------------------------------------------------
    def violation(self, sig: dict, message: str, detail=None):
        """sig: mechanism signature (env, config, quantity, direction...) used for
        known-finding classification; detail: the witness (instance, actions, values)."""
        sig = to_plain(sig)
        key = jhash(sig)
        self.count("violations_raw")
        for v in self.violations:
            if v["sigkey"] == key:
                v["n"] += 1
                return
        self.violations.append(
            dict(
                sigkey=key,
                sig=sig,
                message=message,
                detail=to_plain(detail),
                case=to_plain(self.case),
                n=1,
            )
        )

    def dump(self) -> dict:
        return dict(
            counters=self.counters,
            nontrivial=sorted(self.nontrivial),
            samples=self.samples,
            violations=self.violations,
            ambiguous=self.ambiguous,
            evaluations=self.evaluations,
            notes=self.notes,
        )


# ------------------------------------------------------------------------------------------
# known findings
# ------------------------------------------------------------------------------------------
def load_findings():
    if not os.path.exists(FINDINGS_FILE):
        return dict(findings=[], fixed=[])
    with open(FINDINGS_FILE) as f:
        return json.load(f)


def classify(prop: str, sig: dict, findings: dict):
    """Return the matching known-finding entry or None. An entry matches when it is for
    this property and every key of its `match` dict equals the signature's value (a list
    value in `match` means 'one of')."""
    for ent in findings.get("findings", []):
        if ent.get("property") != prop:
            continue
        ok = True
        for k, v in ent.get("match", {}).items():
            sv = sig.get(k)
            if isinstance(v, list):
                if sv not in v:
                    ok = False
                    break
            elif sv != v:
                ok = False
                break
        if ok:
            return ent
    return None


# ------------------------------------------------------------------------------------------
# runner
# ------------------------------------------------------------------------------------------
def _seed_everything(seed: int):
    import random

    random.seed(seed)
    try:
        import numpy as np

        np.random.seed(seed % (2**32))
    except Exception:
        pass
    try:
        import torch

        torch.manual_seed(seed)
    except Exception:
        pass


def case_seed(seed: int, case: dict) -> int:
    return int(jhash([seed, case])[:8], 16)


class CaseTimeout(BaseException):
    pass


def _alarm(seconds: int):
    import signal

    if not hasattr(signal, "SIGALRM"):
        return
    if seconds:
        def handler(signum, frame):
            raise CaseTimeout()

        signal.signal(signal.SIGALRM, handler)
    signal.alarm(seconds)


def run_cases_inproc(mod, tier: str, seed: int, cases: list, deadline: float | None = None):
    import torch

    torch.set_num_threads(1)
    ctx = Ctx(mod.PROPERTY, tier, seed)
    skipped = 0
    for case in cases:
        if deadline is not None and time.time() > deadline:
            skipped += 1
            continue
        ctx.case = case
        _seed_everything(case_seed(seed, case))
        # RL4COTrainer.__init__ sets the process-global float32 matmul precision to "medium" (bf16 matmuls on AMX CPUs:
        # results then depend on the batch layout at the 3e-4 level); every case starts from full float32
        torch.set_float32_matmul_precision("highest")
        try:
            _alarm(int(getattr(mod, "CASE_TIMEOUT_S", 300)))
            try:
                mod.run_case(ctx, case)
            finally:
                _alarm(0)
        except KeyboardInterrupt:
            raise
        except CaseTimeout:
            # a case that does not return is cut off by a generous wall-clock watchdog: inconclusive, never a violation
            ctx.count("cases_timed_out")
            ctx.note(f"case watchdog fired: {json.dumps(to_plain(case), default=str)[:300]}")
        except Exception as e:  # a crash of the harness/case is never silently dropped
            tb = traceback.format_exc()
            handler = getattr(mod, "on_exception", None)
            handled = False
            if handler is not None:
                try:
                    handled = handler(ctx, case, e, tb)
                except Exception:
                    handled = False
            if not handled:
                ctx.count("harness_errors")
                ctx.violations.append(
                    dict(
                        sigkey=jhash(["harness_error", type(e).__name__, str(e)[:80]]),
                        sig=dict(mechanism="harness_error", exc=type(e).__name__),
                        message=f"unhandled exception in case: {type(e).__name__}: {e}",
                        detail=tb[-3000:],
                        case=to_plain(case),
                        n=1,
                        harness_error=True,
                    )
                )
    if skipped:
        ctx.count("cases_skipped_deadline", skipped)
    return ctx.dump()


def merge(dumps: list[dict]) -> dict:
    out = dict(counters={}, nontrivial=set(), samples=[], violations={}, ambiguous=0, evaluations=0, notes=[])
    for d in dumps:
        for k, v in d["counters"].items():
            out["counters"][k] = out["counters"].get(k, 0) + v
        out["nontrivial"].update(d["nontrivial"])
        for s in d["samples"]:
            if len(out["samples"]) < 4:
                out["samples"].append(s)
        for v in d["violations"]:
            if v["sigkey"] in out["violations"]:
                out["violations"][v["sigkey"]]["n"] += v["n"]
            else:
                out["violations"][v["sigkey"]] = v
        out["ambiguous"] += d["ambiguous"]
        out["evaluations"] += d["evaluations"]
        for n in d.get("notes", []):
            if n not in out["notes"]:
                out["notes"].append(n)
    out["violations"] = list(out["violations"].values())
    return out


def write_replay(prop: str, v: dict) -> str:
    os.makedirs(REPLAY_DIR, exist_ok=True)
    body = dict(property=prop, sig=v["sig"], message=v["message"], case=v["case"], detail=v["detail"])
    path = os.path.join(REPLAY_DIR, f"{prop}-{jhash([v['sig'], v['case']])}.json")
    with open(path, "w") as f:
        json.dump(body, f, indent=1, default=str)
    return path


def finish(mod, tier: str, seed: int, merged: dict, wall: float, workers_failed: list[str], write_evidence=True, replay=False) -> int:
    prop = mod.PROPERTY
    findings = load_findings()
    known_lines, real = [], []
    for v in merged["violations"]:
        ent = None if v.get("harness_error") else classify(prop, v["sig"], findings)
        if ent is not None:
            known_lines.append((ent, v))
        else:
            real.append(v)

    inconclusive = []
    if workers_failed:
        inconclusive.append("workers failed/timeouts: " + "; ".join(workers_failed))
    for c in ([] if replay else getattr(mod, "REQUIRED_COUNTERS", [])):
        if merged["counters"].get(c, 0) == 0:
            inconclusive.append(f"monitor '{c}' observed nothing")
    min_nt = getattr(mod, "MIN_NONTRIVIAL", {}).get(tier, 2)
    if replay:
        min_nt = 0
        if merged["evaluations"] == 0:
            inconclusive.append("replay evaluated nothing")
    if len(merged["nontrivial"]) < min_nt:
        inconclusive.append(f"only {len(merged['nontrivial'])} non-trivial cases (< {min_nt})")
    if merged["counters"].get("cases_timed_out", 0):
        inconclusive.append(f"{merged['counters']['cases_timed_out']} cases cut off by the per-case watchdog")
    if merged["counters"].get("cases_skipped_deadline", 0) and tier == "quick":
        # quick tier must finish its whole plan; thorough is time-boxed by design
        inconclusive.append(f"{merged['counters']['cases_skipped_deadline']} cases skipped at deadline")

    seen_ents = {}
    for ent, v in known_lines:
        seen_ents.setdefault(ent["id"], (ent, 0))
        seen_ents[ent["id"]] = (ent, seen_ents[ent["id"]][1] + v["n"])
    for ent, v in known_lines:
        write_replay(prop, v)  # witness of a listed finding (replays/ is scratch; committed copies live in findings/)
    for eid, (ent, n) in sorted(seen_ents.items()):
        print(f"KNOWN-FINDING: property={prop} {ent['id']}: {ent['what']} (observed {n}x this run)")

    rc = 0
    for v in real:
        path = write_replay(prop, v)
        print(f"VIOLATION property={prop} replay={path}")
        print(f"  sig={json.dumps(v['sig'], sort_keys=True)} n={v['n']}")
        print(f"  {v['message']}")
        rc = 1
    if rc == 0 and inconclusive:
        for r in inconclusive:
            print(f"INCONCLUSIVE property={prop} reason={r}")
        rc = 2

    if write_evidence:
        os.makedirs(EVID_DIR, exist_ok=True)
        cov = dict(
            evaluations=int(merged["evaluations"]),
            distinct_nontrivial=len(merged["nontrivial"]),
            rule=getattr(mod, "RULE", ""),
            case_grid_rounds=int(os.environ.get("VERIF_ROUNDS", "0")) or (getattr(mod, "THOROUGH_ROUNDS", 1) if tier == "thorough" else 1),
            samples=merged["samples"] or [],
            monitor_counters=merged["counters"],
            ambiguous_band_cases=merged["ambiguous"],
            known_findings_observed={k: n for k, (e, n) in seen_ents.items()},
            notes=merged["notes"],
            verdict={0: "held", 1: "violated", 2: "inconclusive"}[rc],
        )
        if getattr(mod, "EXHAUSTIVE_KEY", None):
            cov["exhaustive"] = bool(merged["counters"].get(mod.EXHAUSTIVE_KEY, 0)) and not merged["counters"].get(
                mod.EXHAUSTIVE_KEY + "_incomplete", 0
            )
        cov.update(getattr(mod, "COVERAGE_EXTRA", {}))
        ev = dict(
            property_id=prop,
            tier=tier,
            seed=int(seed),
            level=getattr(mod, "LEVEL", "exploration"),
            coverage=cov,
            assumptions=getattr(mod, "ASSUMPTIONS", []),
            wall_s=round(wall, 2),
            violations=len(real),
        )
        with open(os.path.join(EVID_DIR, f"{prop}.json"), "w") as f:
            json.dump(ev, f, indent=1, default=str)
    print(
        f"[{prop}] tier={tier} seed={seed} evaluations={merged['evaluations']} "
        f"nontrivial={len(merged['nontrivial'])} violations={len(real)} known={len(seen_ents)} "
        f"ambiguous={merged['ambiguous']} wall={wall:.1f}s -> "
        + {0: "HELD", 1: "VIOLATED", 2: "INCONCLUSIVE"}[rc]
    )
    return rc
