"""C19 — persistence round trips: npz, generated dataset files, FJSP/JSSP text files, env copies, checkpoints."""
from __future__ import annotations

import copy
import os
import pickle
import shutil
import tempfile

import torch

from vlib import envzoo, policies
from vlib.episode import run_episode
from vlib.sweep import other_choosers, sig_of


def scratch():
    return tempfile.mkdtemp(prefix="verif-c19-", dir=os.environ.get("VERIF_SCRATCH", None))


def same_td(ctx, sig, a, b, what, keys=None):
    """exact equality of two TensorDicts on the given keys: dtype, shape, content."""
    for k in keys or a.keys():
        ctx.count("c19_key_checks")
        if k not in b.keys():
            ctx.violation(dict(sig, q="key_missing"), f"{what}: key {k} missing after the round trip", None)
            return False
        x, y = a[k], b[k]
        if x.dtype != y.dtype or x.shape != y.shape:
            ctx.violation(dict(sig, q="dtype_shape"), f"{what}: key {k} is {y.dtype}{tuple(y.shape)} after the round trip, was {x.dtype}{tuple(x.shape)}", None)
            return False
        if not torch.equal(x, y):
            ctx.violation(dict(sig, q="content"), f"{what}: key {k} differs after the round trip", None)
            return False
    return True


def behaviour(env, td_in, names, seed, max_steps):
    """(masks, done trajectory, reward) of a scripted-by-seed mask-confined episode."""
    g = torch.Generator().manual_seed(seed)
    ep = run_episode(env, td_in.clone(), names, g, max_steps=max_steps)
    return ep


def same_behaviour(ctx, sig, env_a, td_a, env_b, td_b, names, seed, max_steps, what):
    ea = behaviour(env_a, td_a, names, seed, max_steps)
    # replay a's actions on b (scripted): masks must coincide step by step
    B = ea.B
    scripts = [[int(a[b]) for a in ea.actions] for b in range(B)]
    g = torch.Generator().manual_seed(seed)
    eb = run_episode(env_b, td_b.clone(), ["first_true"] * B, g, max_steps=max_steps, scripted=scripts)
    ctx.count("c19_behaviour_checks", B)
    ctx.evaluation(B)
    if hasattr(eb, "script_infeasible") or len(eb.actions) != len(ea.actions):
        ctx.violation(dict(sig, q="masks"), f"{what}: an action admitted on the original is not admitted on the restored object (step {getattr(eb, 'script_infeasible', ('?',))[0]})", None)
        return False
    for t, (ma, mb) in enumerate(zip(ea.masks, eb.masks)):
        if ma.shape != mb.shape or not torch.equal(ma, mb):
            ctx.violation(dict(sig, q="masks"), f"{what}: masks differ at step {t} along the same action sequence", None)
            return False
    if (ea.reward is None) != (eb.reward is None) or (ea.reward is not None and not torch.allclose(ea.reward.float(), eb.reward.float(), rtol=1e-5, atol=1e-6)):
        ctx.violation(dict(sig, q="reward"), f"{what}: rewards differ for the same action sequence: {None if ea.reward is None else ea.reward.tolist()[:3]} vs {None if eb.reward is None else eb.reward.tolist()[:3]}", None)
        return False
    return True


# ------------------------------------------------------------------------------------------
def npz_case(ctx, case):
    from rl4co.data.utils import load_npz_to_tensordict, save_tensordict_to_npz

    cfg, B, seed = case["cfg"], case["B"], case["s"]
    name = cfg["env"]
    env = envzoo.make(cfg)[0] if name in envzoo_routing() else envzoo.make_other(cfg)
    torch.manual_seed(seed)
    td = env.generator(batch_size=[B])
    d = scratch()
    sig = dict(kind="npz", env=name)
    if case.get("dtypes"):
        # hand-supplied instances in other precisions / with extra typed columns (the documented save format is "a TensorDict"):
        # double-precision coordinates, half-precision and integer / bool side data must come back with dtype and bits intact
        for k in list(td.keys()):
            if td[k].dtype == torch.float32 and case["dtypes"] == "float64":
                td[k] = td[k].double() + 1e-9  # not representable in float32
        td["side_f16"] = torch.arange(B * 3).reshape(B, 3).to(torch.float16) / 7
        td["side_i64"] = torch.arange(B) * 2**40 + 3
        td["side_i32"] = torch.arange(B).to(torch.int32) - 2
        td["side_bool"] = torch.arange(B) % 2 == 0
        td["side_f64"] = torch.arange(B).double() / 3
        sig["dtypes"] = case["dtypes"]
        ctx.count("c19_npz_dtype_cases")
    try:
        f = os.path.join(d, "x.npz")
        save_tensordict_to_npz(td, f, compress=case.get("compress", False))
        td2 = load_npz_to_tensordict(f)
        ctx.evaluation()
        ctx.count("c19_npz_roundtrips")
        if case.get("dtypes"):
            if tuple(td2.batch_size) == (B,) and same_td(ctx, sig, td, td2, "npz save/load"):
                ctx.nontrivial_case(dict(c=case))
            return
        if tuple(td2.batch_size) != (B,):
            ctx.violation(dict(sig, q="batch_size"), f"batch size {tuple(td2.batch_size)} after load, was {(B,)}", None)
            return
        if not same_td(ctx, sig, td, td2, "npz save/load"):
            return
        names = envzoo.chooser_mix(B, seed) if name in envzoo_routing() else other_choosers(cfg, B, seed)
        from rl4co.envs.common.base import RL4COEnvBase

        base_loader = getattr(type(env).load_data, "__func__", type(env).load_data) is getattr(RL4COEnvBase.load_data, "__func__", RL4COEnvBase.load_data)
        if base_loader:
            # envs with their own loader expect other formats (raw demands, instance text files): see datafile / schedfile cases
            td3 = env.load_data(f)
            same_td(ctx, sig, td, td3, "env.load_data of an npz written by save_tensordict_to_npz")
        if base_loader or name == "mtvrp":
            # the way the trainer consumes val / test files: env.dataset(<data size>, phase, filename) -> load_data(f, size)
            from torch.utils.data import DataLoader

            if name == "mtvrp":
                if not same_td(ctx, sig, td, env.load_data(f), "MTVRPEnv.load_data of an npz of generated instances"):
                    return
            for arg in ([B], B, []):
                ds = env.dataset(arg, phase="test", filename=f)
                got = list(DataLoader(ds, batch_size=B, collate_fn=ds.collate_fn))[0]
                ctx.evaluation()
                ctx.count("c19_dataset_from_file_loads")
                if not same_td(ctx, dict(sig, via="dataset"), td, got, f"env.dataset({arg!r}, phase='test', filename=...)"):
                    return
        same_behaviour(ctx, sig, env, td, env, td2, names, seed, 8 * cfg["n"] + 60, "instances restored from npz")
        ctx.nontrivial_case(dict(c=case))
        ctx.sample(dict(case=case, keys=sorted(str(k) for k in td.keys())))
    finally:
        shutil.rmtree(d, ignore_errors=True)


def envzoo_routing():
    return {"tsp", "atsp", "cvrp", "cvrptw", "sdvrp", "svrp", "op", "pctsp", "spctsp", "pdp", "mtsp", "mdcpdp", "mtvrp"}


def datafile_case(ctx, case):
    """files written by rl4co.data.generate_data.generate_dataset, consumed by env.dataset(filename=...)."""
    import numpy as np

    from rl4co.data.generate_data import generate_dataset
    import rl4co.envs as E

    prob, n, N, seed = case["problem"], case["n"], case["N"], case["s"]
    d = scratch()
    sig = dict(kind="datafile", problem=prob)
    try:
        f = os.path.join(d, "sub", f"{prob}{n}.npz")
        dist = case.get("dist", "dist") if prob == "op" else None
        if prob == "mdpp":
            return _mdpp_datafile(ctx, case, d, sig)
        if case.get("default_path"):
            # no explicit file name: <data_dir>/<problem>/<problem>[_<distribution>]<size>_<name>_seed<seed>.npz (documented layout)
            generate_dataset(data_dir=d, name=case["default_path"], problem=prob, dataset_size=N, graph_sizes=[n], seed=seed, overwrite=True, **(dict(data_distribution=dist) if prob == "op" else {}))
            f = os.path.join(d, prob, "{}{}{}_{}_seed{}.npz".format(prob, f"_{dist}" if dist else "", n, case["default_path"], seed))
            ctx.count("c19_default_path_files")
            if not os.path.isfile(f):
                ctx.evaluation()
                ctx.violation(dict(sig, q="default_path"), f"generate_dataset(data_dir, name) did not write {os.path.relpath(f, d)} (found {sorted(os.listdir(os.path.join(d, prob))) if os.path.isdir(os.path.join(d, prob)) else 'no directory'})", None)
                return
            # a second call without overwrite must keep the file (documented: existing files are skipped)
            before = open(f, "rb").read()
            generate_dataset(data_dir=d, name=case["default_path"], problem=prob, dataset_size=N + 1, graph_sizes=[n], seed=seed, overwrite=False, **(dict(data_distribution=dist) if prob == "op" else {}))
            if open(f, "rb").read() != before:
                ctx.evaluation()
                ctx.violation(dict(sig, q="overwritten"), "generate_dataset(overwrite=False) replaced an existing dataset file", None)
                return
        elif prob == "vrp" and case.get("capacity_override"):
            # generate_env_data with a capacity table override (documented argument of generate_vrp_data)
            from rl4co.data.generate_data import generate_env_data

            np.random.seed(seed)
            data = generate_env_data("vrp", N, n, {n: float(case["capacity_override"])})
            os.makedirs(os.path.dirname(f), exist_ok=True)
            np.savez(f, **data)
            ctx.count("c19_capacity_override_files")
            ctx.evaluation()
            if not np.all(data["capacity"] == np.float32(case["capacity_override"])):
                ctx.violation(dict(sig, q="capacity_override"), f"generate_vrp_data(capacities={{{n}: {case['capacity_override']}}}) wrote capacity {data['capacity'][:3]}", None)
                return
        else:
            generate_dataset(filename=f, problem=prob, dataset_size=N, graph_sizes=[n], seed=seed, overwrite=True, **(dict(data_distribution=dist) if prob == "op" else {}))
        raw = dict(np.load(f))
        if prob == "op":
            # documented prize rules (Fischetti et al.): const = 1, unif = k/100 with k in 1..100, dist = (1 + floor(99 d/dmax))/100
            pz = raw["prize"].astype("float64")
            ctx.evaluation()
            ctx.count("c19_op_prize_rule_checks")
            if dist == "const":
                okp = bool(np.all(pz == 1.0))
            elif dist == "unif":
                okp = bool(np.all(np.abs(pz * 100 - np.round(pz * 100)) < 1e-4) and pz.min() >= 0.01 - 1e-6 and pz.max() <= 1.0 + 1e-6 and len(np.unique(pz)) > 1)
            else:
                dd = np.linalg.norm(raw["depot"][:, None, :].astype("float64") - raw["locs"].astype("float64"), axis=-1)
                want = (1 + np.floor(dd / dd.max(-1, keepdims=True) * 99 + 1e-9)) / 100.0
                okp = bool(np.all(np.abs(pz - want) <= 0.0100001))  # one bin of slack for float32 coordinates at a bin edge
            if not okp:
                ctx.violation(dict(sig, q="op_prize_rule", dist=dist), f"OP dataset prizes do not follow the '{dist}' rule (e.g. {pz[0][:5].tolist()})", None)
                return
        if prob == "vrp" and case.get("merged"):
            # a merged dataset file (documented format, capacity stored per instance): the second half comes from a source
            # with another vehicle capacity; integer demands 1..9 stay below both
            cap = raw["capacity"].copy()
            cap[N // 2:] = case["merged"]
            raw["capacity"] = cap
            np.savez(f, **raw)
            raw = dict(np.load(f))
            ctx.count("c19_merged_capacity_files")
        envs = {"tsp": [E.TSPEnv], "vrp": [E.CVRPEnv, E.SDVRPEnv], "pdp": [E.PDPEnv], "op": [E.OPEnv], "pctsp": [E.PCTSPEnv, E.SPCTSPEnv], "atsp": [E.ATSPEnv]}[prob]
        for cls in envs:
            env = cls(generator_params=dict(num_loc=n), check_solution=False)
            ds = env.dataset(filename=f)
            from torch.utils.data import DataLoader

            batches = list(DataLoader(ds, batch_size=N, collate_fn=ds.collate_fn))
            td = batches[0]
            ctx.evaluation()
            ctx.count("c19_datafile_loads")
            if td.batch_size[0] != N:
                ctx.violation(dict(sig, q="size"), f"{N} instances written, {td.batch_size[0]} read", None)
                continue
            ok = True
            for k, v in raw.items():
                got = td[k]
                want = torch.from_numpy(v)
                if prob == "vrp" and k == "demand":
                    want = want / torch.from_numpy(raw["capacity"])[:, None]  # documented: normalised by capacity on load
                if got.shape != want.shape or not torch.allclose(got.double(), want.double(), rtol=0, atol=1e-7):
                    ctx.violation(dict(sig, q="content", key=k), f"key {k} read through {cls.__name__}.dataset differs from the file content", None)
                    ok = False
                    break
                if got.dtype != torch.float32 and k != "capacity":
                    ctx.violation(dict(sig, q="dtype", key=k), f"key {k} loaded as {got.dtype}", None)
                    ok = False
                    break
            if not ok:
                continue
            # the loaded instances must be usable: a mask-confined episode completes and is feasible / correctly rewarded
            zoo = {"TSPEnv": "tsp", "CVRPEnv": "cvrp", "SDVRPEnv": "sdvrp", "PDPEnv": "pdp", "OPEnv": "op", "PCTSPEnv": "pctsp", "SPCTSPEnv": "spctsp", "ATSPEnv": "atsp"}[cls.__name__]
            cfg = dict(env=zoo, n=n)
            _, O = envzoo.make(dict(cfg, start_depot=False) if zoo == "pdp" else cfg)
            g = torch.Generator().manual_seed(seed)
            ep = run_episode(env, td.clone(), envzoo.chooser_mix(N, seed), g, max_steps=8 * n + 60)
            if ep.error is not None or hasattr(ep, "dead_end_at") or any(ep.finish_step(b) is None for b in range(N)):
                ctx.violation(dict(sig, q="unusable", env=zoo), f"episode on file-loaded instances does not complete ({ep.error})", None)
                continue
            for b in range(N):
                inst = O.extract(td, ep.td0, b, env)
                acts = ep.executed(b)
                ctx.evaluation()
                ctx.count("c19_datafile_rows")
                v = [x for x in O.violations(inst, acts) if x[1] == "violated"]
                ref = O.objective(inst, acts)
                got = float(ep.reward.reshape(N, -1)[b, 0])
                if v or abs(got - ref) > 1e-4 * max(1, abs(ref)):
                    ctx.violation(dict(sig, q="semantics", env=zoo), f"file-loaded instance: violations {v[:1]} reward {got} vs objective {ref}", dict(inst=inst, actions=acts))
                    break
        ctx.nontrivial_case(dict(c=case))
    finally:
        shutil.rmtree(d, ignore_errors=True)


def _mdpp_datafile(ctx, case, d, sig):
    """generate_dataset(problem='mdpp') -> MDPPEnv.dataset(filename): content preserved, and episodes on the loaded instances only
    place decaps on cells the file marks available (never on a probing port)."""
    import numpy as np
    from torch.utils.data import DataLoader

    from rl4co.data.generate_data import generate_dataset

    N, seed = case["N"], case["s"]
    f = os.path.join(d, "sub", "mdpp10.npz")
    generate_dataset(filename=f, problem="mdpp", dataset_size=N, graph_sizes=[10], seed=seed, overwrite=True)
    raw = dict(np.load(f))
    env = envzoo.make_other(dict(env="mdpp", n=100, size=10, kmin=1, kmax=50, decaps=20, reward_type="minmax"))
    ds = env.dataset(filename=f)
    td = list(DataLoader(ds, batch_size=N, collate_fn=ds.collate_fn))[0]
    ctx.evaluation()
    ctx.count("c19_datafile_loads")
    ctx.count("c19_mdpp_files")
    for k, v in raw.items():
        got, want = td[k], torch.from_numpy(v)
        if got.shape != want.shape or got.dtype != want.dtype or not torch.equal(got, want):
            ctx.violation(dict(sig, q="content", key=k), f"key {k} read through MDPPEnv.dataset differs from the file content", None)
            return
    avail, probes = raw["action_mask"], raw["probe"]
    if bool((avail & probes).any()):
        ctx.violation(dict(sig, q="mdpp_probe_available"), "generated MDPP file marks a probing port as available", None)
        return
    g = torch.Generator().manual_seed(seed)
    ep = run_episode(env, td.clone(), (["uniform", "first_true", "last_true"] * N)[:N], g, max_steps=200)
    if ep.error is not None or hasattr(ep, "dead_end_at") or any(ep.finish_step(b) is None for b in range(N)):
        ctx.violation(dict(sig, q="unusable", env="mdpp"), f"episode on file-loaded MDPP instances does not complete ({ep.error})", None)
        return
    for b in range(N):
        acts = ep.executed(b)
        ctx.evaluation()
        ctx.count("c19_datafile_rows")
        bad = [a for a in acts if not avail[b][a] or probes[b][a]]
        if bad or len(set(acts)) != len(acts):
            ctx.violation(dict(sig, q="semantics", env="mdpp"), f"file-loaded MDPP instance: decaps on unavailable cells / probing ports {bad} or repeated ({acts})", None)
            return
    ctx.nontrivial_case(dict(c=case))


def schedfile_case(ctx, case):
    """FJSP: parser.write -> FJSPFileGenerator; JSSP: standard text written by the harness -> JSSPFileGenerator."""
    import rl4co.envs as E

    cfg, B, seed = case["cfg"], case["B"], case["s"]
    name = cfg["env"]
    env = envzoo.make_other(cfg)
    torch.manual_seed(seed)
    td_in = env.generator(batch_size=[B])
    td0 = env.reset(td_in.clone())
    d = scratch()
    sig = dict(kind="schedfile", env=name)
    try:
        if name == "fjsp":
            from rl4co.envs.scheduling.fjsp.parser import write

            write(d, td0)
            env2 = E.FJSPEnv(generator_params=dict(file_path=d), mask_no_ops=cfg["mask_no_ops"])
        else:
            for b in range(B):
                pt = td_in["proc_times"][b]
                lines = [f"{cfg['jobs']} {cfg['mas']}"]
                for j in range(cfg["jobs"]):
                    s_, e_ = int(td_in["start_op_per_job"][b, j]), int(td_in["end_op_per_job"][b, j])
                    row = []
                    for o in range(s_, e_ + 1):
                        m = int(torch.nonzero(pt[:, o]).flatten()[0])
                        row += [m + 1, int(pt[m, o])]
                    lines.append(" ".join(map(str, row)))
                with open(os.path.join(d, f"{b:04d}.txt"), "w") as fh:
                    fh.write("\n".join(lines) + "\n")
            env2 = E.JSSPEnv(generator_params=dict(file_path=d), mask_no_ops=cfg["mask_no_ops"])
        td2_in = env2.generator(batch_size=[B])
        ctx.count("c19_sched_file_sets")
        if td2_in.batch_size[0] != B:
            ctx.evaluation()
            ctx.violation(dict(sig, q="size"), f"{B} instances written, {td2_in.batch_size[0]} read", None)
            return

        def canon(td, b):
            pt, pad = td["proc_times"][b], td["pad_mask"][b]
            real = (~pad).nonzero().flatten()
            s_, e_ = td["start_op_per_job"][b].long().tolist(), td["end_op_per_job"][b].long().tolist()
            return (tuple(map(tuple, pt[:, real].long().tolist())), tuple(zip(s_, e_)))

        orig = {canon(td_in, b): b for b in range(B)}
        match = []
        for b2 in range(B):
            ctx.evaluation()
            ctx.count("c19_sched_instances")
            c = canon(td2_in, b2)
            if c not in orig:
                ctx.violation(dict(sig, q="content"), "an instance read back from its text file is none of the written instances (processing times / job structure differ)", dict(read=c))
                return
            match.append(orig[c])
        if sorted(match) != sorted(set(match)) and len(set(orig)) == B:
            ctx.violation(dict(sig, q="duplicates"), "two files were read as the same instance", None)
            return
        # behaviour: same masks/reward along the same actions (instance by instance, padding may differ)
        for b2 in range(B):
            b = match[b2]
            names = other_choosers(cfg, 1, seed + b)
            if not same_behaviour(ctx, sig, env, td_in[b : b + 1], env2, td2_in[b2 : b2 + 1], names, seed + b, 400, "instance restored from its text file"):
                return
        # repeated consumption of the same file set (one read per epoch; chunked reads): every pass must hand out every
        # written instance exactly once again
        def multiset(tds):
            out = []
            for t in tds:
                for b_ in range(t.batch_size[0]):
                    out.append(canon(t, b_))
            return sorted(map(repr, out))

        want = sorted(map(repr, orig.keys())) if len(orig) == B else None
        if want is not None:
            chunks = [c_ for c_ in (B, 1, 2, 3) if B % c_ == 0]
            for rep, ch in enumerate(chunks + [B]):
                try:
                    got = [env2.generator(batch_size=[ch]) for _ in range(B // ch)]
                except Exception as e:
                    ctx.evaluation()
                    ctx.violation(dict(sig, q="reread_raises", exc=type(e).__name__), f"reading the file set again (pass {rep + 2}, chunks of {ch}) raised {type(e).__name__}: {str(e)[:160]}", None)
                    return
                ctx.evaluation()
                ctx.count("c19_sched_rereads")
                if multiset(got) != want:
                    ctx.violation(dict(sig, q="reread_content"), f"pass {rep + 2} over the same {B} files (chunks of {ch}) returned {sum(t.batch_size[0] for t in got)} instances that are not exactly the written ones", None)
                    return
            try:
                ds = env2.dataset([B])
                n_ds = len(ds)
            except Exception as e:
                n_ds = None
            if n_ds is not None:
                ctx.evaluation()
                ctx.count("c19_sched_rereads")
                if n_ds != B:
                    ctx.violation(dict(sig, q="reread_content", via="dataset"), f"env.dataset([{B}]) on a file set of {B} returned {n_ds} instances", None)
                    return
        ctx.nontrivial_case(dict(c=case))
    finally:
        shutil.rmtree(d, ignore_errors=True)


def envcopy_case(ctx, case):
    cfg, B, seed = case["cfg"], case["B"], case["s"]
    name = cfg["env"]
    routing = name in envzoo_routing()
    env = envzoo.make(cfg)[0] if routing else envzoo.make_other(cfg)
    torch.manual_seed(seed)
    td = env.generator(batch_size=[B])
    names = envzoo.chooser_mix(B, seed) if routing else other_choosers(cfg, B, seed)
    for how in ("deepcopy", "pickle"):
        sig = dict(kind="envcopy", env=name, how=how)
        try:
            env2 = copy.deepcopy(env) if how == "deepcopy" else pickle.loads(pickle.dumps(env))
        except Exception as e:
            ctx.evaluation()
            ctx.violation(dict(sig, q="raises", exc=type(e).__name__), f"{how} of the env raised {type(e).__name__}: {str(e)[:160]}", None)
            continue
        ctx.count("c19_env_copies")
        if not same_behaviour(ctx, sig, env, td, env2, td, names, seed, 8 * cfg["n"] + 60, f"{how} copy of the env"):
            continue
        # the copy generates the same data from the same seed (generator parameters survived)
        torch.manual_seed(seed + 5)
        a = env.generator(batch_size=[3])
        torch.manual_seed(seed + 5)
        b = env2.generator(batch_size=[3])
        ctx.evaluation()
        same_td(ctx, dict(sig, what="generator"), a, b, f"generator of the {how} copy")
    # history: an env that has already served k batches. Its pickled state carries the state of its random stream
    # (RL4COEnvBase.__getstate__), so the restored env continues with the batch the original serves next; and taking a deep
    # copy must leave the original's stream where it was (control: the same history without the copy)
    for k in case.get("hist", (0, 2)):
        torch.manual_seed(seed + 11)
        for _ in range(k):
            env.generator(batch_size=[2])
        want = env.generator(batch_size=[3])  # control: what the env serves after k batches
        torch.manual_seed(seed + 11)
        for _ in range(k):
            env.generator(batch_size=[2])
        try:
            blob = pickle.dumps(env)
            nxt = env.generator(batch_size=[3])
            env_p = pickle.loads(blob)
            got = env_p.generator(batch_size=[3])
        except Exception as e:
            ctx.evaluation()
            ctx.violation(dict(kind="envcopy", env=name, how="pickle", q="raises", exc=type(e).__name__), f"pickling a used env raised {type(e).__name__}: {str(e)[:160]}", None)
            break
        ctx.evaluation()
        ctx.count("c19_env_stream_checks")
        sigk = dict(kind="envcopy", env=name, how="pickle", what="random_stream", used=k > 0)
        if not same_td(ctx, sigk, want, nxt, f"(control) next batch of the original after {k} batches"):
            break
        if not same_td(ctx, sigk, want, got, f"next batch of an env pickled after serving {k} batches (the original serves another one)"):
            break
        torch.manual_seed(seed + 11)
        for _ in range(k):
            env.generator(batch_size=[2])
        env_c = copy.deepcopy(env)
        nxt2 = env.generator(batch_size=[3])
        ctx.evaluation()
        ctx.count("c19_env_stream_checks")
        if not same_td(ctx, dict(sigk, how="deepcopy", side="original"), want, nxt2, f"next batch of the ORIGINAL env after a deep copy was taken (history of {k} batches): the copy disturbed it"):
            break
        del env_c
    ctx.nontrivial_case(dict(c=case))


def checkpoint_case(ctx, case):
    import rl4co.models as M
    from rl4co.utils.trainer import RL4COTrainer

    # torch >= 2.6 loads with weights_only=True by default; rl4co checkpoints pickle the env and policy objects in their
    # hyper-parameters, so restoring them requires the documented opt-out (an environment/version matter, not the property)
    os.environ["TORCH_FORCE_NO_WEIGHTS_ONLY_LOAD"] = "1"

    name, seed = case["env"], case["s"]
    env, O, cfg = policies.env_for(name, 6)
    torch.manual_seed(seed)
    pol = policies.make(case.get("policy", "am"), env, seed=seed % 7)
    kw = dict(batch_size=4, train_data_size=8, val_data_size=4, test_data_size=4, optimizer_kwargs=dict(lr=1e-3))
    kind = case["model"]
    sig = dict(kind="checkpoint", model=kind)
    if kind.startswith("reinforce"):
        bl = kind.split(":")[1]
        if bl == "critic":
            pol = M.AttentionModelPolicy(env_name=env.name, embed_dim=128, num_encoder_layers=1, num_heads=2)
        model = M.REINFORCE(env, pol, baseline=bl, **kw)
        cls = M.REINFORCE
    elif kind == "pomo":
        model = M.POMO(env, pol, num_starts=3, num_augment=8, **kw)
        cls = M.POMO
    elif kind == "am":
        model = M.AttentionModel(env, pol, baseline="rollout", **kw)
        cls = M.AttentionModel
    elif kind == "ppo":
        pol = M.AttentionModelPolicy(env_name=env.name, embed_dim=128, num_encoder_layers=1, num_heads=2)
        model = M.PPO(env, pol, mini_batch_size=4, ppo_epochs=1, **kw)
        cls = M.PPO
    else:
        raise KeyError(kind)
    d = scratch()
    cwd = os.getcwd()
    try:
        os.chdir(d)
        trainer = RL4COTrainer(matmul_precision="highest", max_epochs=case.get("epochs", 1), accelerator="cpu", devices=1, logger=False, enable_checkpointing=False, enable_progress_bar=False, enable_model_summary=False, precision="32-true", default_root_dir=d)
        trainer.fit(model)
        ck = os.path.join(d, "m.ckpt")
        trainer.save_checkpoint(ck)
        ctx.count("c19_checkpoints")
        try:
            loaded = cls.load_from_checkpoint(ck, map_location="cpu")
        except Exception as e:
            ctx.evaluation()
            ctx.violation(dict(sig, q="load_raises", exc=type(e).__name__), f"{cls.__name__}.load_from_checkpoint raised {type(e).__name__}: {str(e)[:200]}", None)
            return
        torch.manual_seed(seed + 3)
        td_in = env.generator(batch_size=[6])
        model.policy.eval()
        loaded.policy.eval()
        with torch.inference_mode():
            a = model.policy(env.reset(td_in.clone()), env, phase="test", decode_type="greedy", return_actions=True)
            b = loaded.policy(loaded.env.reset(td_in.clone()), loaded.env, phase="test", decode_type="greedy", return_actions=True)
        ctx.evaluation(6)
        ctx.count("c19_policy_rows", 6)
        if a["actions"].shape != b["actions"].shape or not torch.equal(a["actions"], b["actions"]) or not torch.allclose(a["reward"], b["reward"], rtol=1e-5, atol=1e-6) or not torch.allclose(a["log_likelihood"], b["log_likelihood"], rtol=1e-4, atol=1e-5):
            ctx.violation(dict(sig, q="policy"), "greedy actions / rewards / log-likelihoods of the restored policy differ from the saved model's", None)
            return
        # the restored model as it is USED: validation / test phases pick their decoding from the policy's own configuration
        # (multi-start models rewrite it at construction, and construction runs again on restore)
        for ph in ("val", "test"):
            cfg_a, cfg_b = getattr(model.policy, f"{ph}_decode_type", None), getattr(loaded.policy, f"{ph}_decode_type", None)
            ctx.count("c19_phase_decode_checks")
            if cfg_a != cfg_b:
                ctx.violation(dict(sig, q="phase_decode_type", phase=ph), f"the restored policy decodes the {ph} phase with '{cfg_b}', the saved model with '{cfg_a}'", None)
                return
            nst = dict(num_starts=3) if kind == "pomo" else {}
            with torch.inference_mode():
                torch.manual_seed(seed + 4)
                pa = model.policy(env.reset(td_in.clone()), env, phase=ph, return_actions=True, **nst)
                torch.manual_seed(seed + 4)
                pb = loaded.policy(loaded.env.reset(td_in.clone()), loaded.env, phase=ph, return_actions=True, **nst)
            if pa["actions"].shape != pb["actions"].shape or not torch.equal(pa["actions"], pb["actions"]) or not torch.allclose(pa["reward"], pb["reward"], rtol=1e-5, atol=1e-6):
                ctx.violation(dict(sig, q="phase_behaviour", phase=ph), f"in the {ph} phase the restored policy returns other solutions than the saved model on the same instances (same random stream)", None)
                return
        sd_a, sd_b = model.policy.state_dict(), loaded.policy.state_dict()
        if set(sd_a) != set(sd_b) or any(not torch.equal(sd_a[k], sd_b[k]) for k in sd_a):
            ctx.violation(dict(sig, q="policy_weights"), "policy weights differ after restore", None)
            return
        # baseline state
        if kind.startswith("reinforce") or kind == "am":
            ba, bb = model.baseline, loaded.baseline
            inner_a = getattr(ba, "baseline", ba)
            inner_b = getattr(bb, "baseline", bb)
            ctx.count("c19_baseline_checks")
            if type(inner_a) is not type(inner_b):
                ctx.violation(dict(sig, q="baseline_type"), f"baseline {type(inner_b).__name__} restored, was {type(inner_a).__name__}", None)
                return
            if hasattr(inner_a, "policy") and isinstance(getattr(inner_a, "policy", None), torch.nn.Module):
                with torch.inference_mode():
                    ra = inner_a.policy(env.reset(td_in.clone()), env, decode_type="greedy")["reward"]
                    rb = inner_b.policy(env.reset(td_in.clone()), env, decode_type="greedy")["reward"]
                if not torch.allclose(ra, rb, rtol=1e-5, atol=1e-6):
                    ctx.violation(dict(sig, q="baseline_policy"), "the restored rollout-baseline policy gives other greedy rewards than the saved one", dict(saved=ra.tolist(), restored=rb.tolist()))
                    return
            if hasattr(inner_a, "policy") and isinstance(getattr(inner_a, "policy", None), torch.nn.Module):
                # the baseline object on its own through pickle / deepcopy (documented: the evaluation dataset is dropped and rebuilt
                # in setup; policy, stored rollout values and their mean must survive)
                for how, clone in (("pickle", lambda o: pickle.loads(pickle.dumps(o))), ("deepcopy", copy.deepcopy)):
                    try:
                        bc = clone(ba)
                    except Exception as e:
                        ctx.violation(dict(sig, q="baseline_copy_raises", how=how, exc=type(e).__name__), f"{how} of the trained baseline raised {type(e).__name__}: {str(e)[:160]}", None)
                        return
                    ic = getattr(bc, "baseline", bc)
                    ctx.count("c19_baseline_copies")
                    with torch.inference_mode():
                        rc = ic.policy(env.reset(td_in.clone()), env, decode_type="greedy")["reward"]
                    same_vals = (getattr(ic, "bl_vals", None) is None and getattr(inner_a, "bl_vals", None) is None) or (getattr(ic, "bl_vals", None) is not None and getattr(inner_a, "bl_vals", None) is not None and bool((torch.as_tensor(ic.bl_vals) == torch.as_tensor(inner_a.bl_vals)).all()))
                    if not torch.allclose(ra, rc, rtol=1e-5, atol=1e-6) or not same_vals or getattr(bc, "alpha", None) != getattr(ba, "alpha", None):
                        ctx.violation(dict(sig, q="baseline_copy", how=how), f"{how} of the trained baseline does not behave like the original (greedy rewards / stored rollout values / warm-up weight)", None)
                        return
            if hasattr(inner_a, "critic") and inner_a.critic is not None:
                ca, cb = inner_a.critic.state_dict(), inner_b.critic.state_dict()
                if set(ca) != set(cb) or any(not torch.equal(ca[k], cb[k]) for k in ca):
                    ctx.violation(dict(sig, q="critic_weights"), "critic weights differ after restore", None)
                    return
        ctx.nontrivial_case(dict(c=case))
        ctx.sample(dict(case=case, greedy_rewards=a["reward"].tolist()))
    finally:
        os.chdir(cwd)
        shutil.rmtree(d, ignore_errors=True)


def multifile_case(ctx, case):
    """several val/test files registered by name: env.dataset(phase=...) must return, under every name, the content of the
    file registered under that name (files of different sizes in the library's usual non-lexicographic size order)."""
    import numpy as np

    from rl4co.data.generate_data import generate_dataset
    import rl4co.envs as E
    from torch.utils.data import DataLoader

    prob, sizes, seed, phase = case["problem"], case["sizes"], case["s"], case["phase"]
    d = scratch()
    sig = dict(kind="multifile", problem=prob, named=case["named"])
    try:
        files, raws = [], {}
        for n in sizes:
            fn = f"{prob}{n}_{phase}.npz"
            generate_dataset(filename=os.path.join(d, fn), problem=prob, dataset_size=case["N"], graph_sizes=[n], seed=seed + n, overwrite=True)
            files.append(fn)
            raws[fn] = dict(np.load(os.path.join(d, fn)))
        names = [f"{prob}{n}" for n in sizes] if case["named"] else None
        cls = {"tsp": E.TSPEnv, "vrp": E.CVRPEnv}[prob]
        kw = {f"{phase}_file": files, "data_dir": d}
        if case.get("abs_paths"):
            # files registered by absolute path (data_dir left at its default): they must be found where they are
            kw = {f"{phase}_file": [os.path.join(d, f_) for f_ in files]}
            sig["abs_paths"] = True
            ctx.count("c19_abs_path_sets")
        if names:
            kw[f"{phase}_dataloader_names"] = names
        env = cls(generator_params=dict(num_loc=sizes[0]), **kw)
        dsets = env.dataset(case["N"] if case.get("abs_paths") else [], phase=phase)
        ctx.count("c19_multifile_sets")
        keys = names or [str(i) for i in range(len(files))]
        if not isinstance(dsets, dict) or list(dsets.keys()) != keys:
            ctx.evaluation()
            ctx.violation(dict(sig, q="names"), f"datasets returned under {list(dsets.keys()) if isinstance(dsets, dict) else type(dsets)}, expected {keys}", None)
            return
        for key, fn in zip(keys, files):
            ds = dsets[key]
            td = next(iter(DataLoader(ds, batch_size=case["N"], collate_fn=ds.collate_fn)))
            want = torch.from_numpy(raws[fn]["locs"])
            ctx.evaluation()
            ctx.count("c19_multifile_checks")
            if td["locs"].shape != want.shape or not torch.equal(td["locs"], want):
                ctx.violation(dict(sig, q="name_file_pairing"), f"the dataset registered as '{key}' does not hold the content of its file {fn} (locs {tuple(td['locs'].shape)} vs {tuple(want.shape)})", dict(files=files, names=keys))
                return
        # an explicit filename overrides the files configured for the phase
        other = files[-1]
        ds_o = env.dataset(phase=phase, filename=os.path.join(d, other))
        ctx.evaluation()
        ctx.count("c19_filename_override_loads")
        if isinstance(ds_o, dict):
            ctx.violation(dict(sig, q="filename_override_ignored"), f"env.dataset(phase='{phase}', filename={other}) returned the configured multi-file dict instead of the named file", None)
            return
        td_o = next(iter(DataLoader(ds_o, batch_size=case["N"], collate_fn=ds_o.collate_fn)))
        want_o = torch.from_numpy(raws[other]["locs"])
        if td_o["locs"].shape != want_o.shape or not torch.equal(td_o["locs"], want_o):
            ctx.violation(dict(sig, q="filename_override_ignored"), f"env.dataset(phase='{phase}', filename={other}) does not hold the content of {other}", None)
            return
        ctx.nontrivial_case(dict(c=case))
        ctx.sample(dict(case=case, names=keys))
    finally:
        shutil.rmtree(d, ignore_errors=True)


def gen_determinism_case(ctx, case):
    """A generated dataset file is named after (problem, distribution, size, name, seed): its content must be a function of exactly
    those - the same whether it was written alone, together with other sizes in one call, or in a call that skipped files which
    already existed (otherwise the instances an env loads from '<...>_seed1234.npz' depend on the history of the data directory)."""
    import numpy as np

    from rl4co.data.generate_data import generate_dataset

    prob, sizes, N, seed = case["problem"], case["sizes"], case["N"], case["s"]
    sig = dict(kind="generated_file_determinism", problem=prob)
    d = scratch()
    try:
        def fname(root, n):
            return os.path.join(root, prob, "{}{}_{}_seed{}.npz".format(prob, n, "val", seed))

        roots = {}
        # (a) every size on its own
        for n in sizes:
            roots[("alone", n)] = os.path.join(d, f"alone{n}")
            generate_dataset(data_dir=roots[("alone", n)], name="val", problem=prob, dataset_size=N, graph_sizes=[n], seed=seed, overwrite=True)
        # (b) all sizes in one call
        roots["together"] = os.path.join(d, "together")
        generate_dataset(data_dir=roots["together"], name="val", problem=prob, dataset_size=N, graph_sizes=list(sizes), seed=seed, overwrite=True)
        # (c) the first size already on disk, the call writes the rest
        roots["resumed"] = os.path.join(d, "resumed")
        generate_dataset(data_dir=roots["resumed"], name="val", problem=prob, dataset_size=N, graph_sizes=[sizes[0]], seed=seed, overwrite=True)
        generate_dataset(data_dir=roots["resumed"], name="val", problem=prob, dataset_size=N, graph_sizes=list(sizes), seed=seed, overwrite=False)
        ctx.count("c19_generation_histories")
        for n in sizes:
            ref = dict(np.load(fname(roots[("alone", n)], n)))
            for how in ("together", "resumed"):
                ctx.evaluation()
                ctx.count("c19_generated_file_comparisons")
                f = fname(roots[how], n)
                if not os.path.isfile(f):
                    ctx.violation(dict(sig, q="file_missing", how=how), f"{os.path.relpath(f, d)} was not written", None)
                    return
                got = dict(np.load(f))
                bad = [k for k in ref if k not in got or got[k].shape != ref[k].shape or not np.array_equal(got[k], ref[k])]
                if bad:
                    ctx.violation(dict(sig, q="content_depends_on_history", how=how), f"size-{n} file written {how} differs from the same (problem, size, seed) written alone (keys {bad})", dict(sizes=sizes, seed=seed))
                    return
        ctx.nontrivial_case(dict(c=case))
    finally:
        shutil.rmtree(d, ignore_errors=True)
