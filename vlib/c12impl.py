"""C12 — replicated rollouts keep their instance: batchify/unbatchify laws, forced starts, best-of-k."""
from __future__ import annotations

import itertools
import random

import torch

from vlib import envzoo
from vlib.sweep import sig_of
from vlib.taps import PolicyTap, td_fingerprint

START_ENVS = ["tsp", "atsp", "cvrp", "cvrptw", "sdvrp", "svrp", "op", "pctsp", "spctsp", "pdp", "mtsp", "mtvrp"]


# ------------------------------------------------------------------------------------------
def ops_case(ctx, case):
    """tagged tensors / TensorDicts through the real batchify / unbatchify."""
    from tensordict import TensorDict

    from rl4co.utils.ops import batchify, unbatchify, unbatchify_and_gather

    B, shape = case["B"], tuple(case["shape"])
    rnd = random.Random(case["s"])
    K = 1
    for s in shape:
        K *= max(s, 1)
    feat = rnd.choice([(), (3,), (2, 4), (B,), (B, B)])  # incl. feature dims equal to the batch size
    # x[b] carries tag b in every entry (+ a per-entry offset so content, not just the tag, is checked)
    base = torch.arange(B).float().reshape(B, *([1] * len(feat))) * 1000
    off = torch.arange(int(torch.tensor(feat).prod()) if feat else 1).float().reshape(*feat) if feat else torch.zeros(())
    x = base + off
    layout = rnd.choice(["contiguous", "strided_view", "expanded"])
    if layout == "strided_view":
        x = torch.stack([x, x + 7.0], -1)[..., 0]  # same values, non-contiguous memory
    elif layout == "expanded" and feat:
        x = (torch.arange(B).float() * 1000).reshape(B, *([1] * len(feat))).expand(B, *feat)  # stride-0 feature dims
    ctx.count(f"c12_layout_{layout}")
    td = TensorDict({"a": x.clone(), "ids": torch.arange(B), "nested": TensorDict({"c": x.clone() + 0.5}, batch_size=[B])}, batch_size=[B])
    fp_x, fp_td = x.clone(), td_fingerprint(td.flatten_keys())
    arg = shape if len(shape) > 1 or rnd.random() < 0.5 else shape[0]
    for kind, obj in (("tensor", x), ("tensordict", td)):
        y = batchify(obj, arg)
        ctx.evaluation()
        ctx.count("c12_batchify_calls")
        n_rows = y.shape[0]
        if n_rows != B * K:
            ctx.violation(dict(q="batchify_size", kind=kind), f"batchify({kind} of {B} rows, {arg}) has {n_rows} rows, expected {B*K}", dict(B=B, shape=shape))
            continue
        tags = (y if kind == "tensor" else y["a"]).reshape(n_rows, -1)[:, 0] / 1000
        want = torch.arange(n_rows) % B
        if not torch.equal(tags.long(), want):
            ctx.violation(dict(q="row_instance", kind=kind, nesting=len(shape)), f"after batchify {arg}: row r does not hold instance r mod B: tags {tags.long().tolist()}", dict(B=B, shape=shape))
            continue
        if kind == "tensordict":
            if not torch.equal(y["ids"], want) or not torch.equal((y["nested", "c"].reshape(n_rows, -1)[:, 0] - 0.5) / 1000, want.float()):
                ctx.violation(dict(q="row_instance", kind="tensordict_entry", nesting=len(shape)), f"after batchify {arg}: TensorDict entries disagree on the instance of a row", dict(B=B, shape=shape))
                continue
        z = unbatchify(y, arg)
        ctx.count("c12_unbatchify_calls")
        zz = z if kind == "tensor" else z["a"]
        exp_shape = (B,) + tuple(s for s in shape if s > 0)
        if tuple(zz.shape[: len(exp_shape)]) != exp_shape:
            ctx.violation(dict(q="unbatchify_shape", kind=kind), f"unbatchify(batchify(x,{arg}),{arg}) has shape {tuple(zz.shape)}, expected leading {exp_shape}", dict(B=B, shape=shape))
            continue
        ref = x.reshape(B, *([1] * (len(exp_shape) - 1)), *feat).expand(*exp_shape, *feat)
        if not torch.equal(zz, ref):
            ctx.violation(dict(q="round_trip", kind=kind, nesting=len(shape)), f"unbatchify(batchify(x,{arg}),{arg})[b,...] != x[b]", dict(B=B, shape=shape, got=zz.reshape(B, -1)[:, :6].tolist()))
            continue
        if kind == "tensordict" and not torch.equal(z["ids"], torch.arange(B).reshape(B, *([1] * (len(exp_shape) - 1))).expand(*exp_shape)):
            ctx.violation(dict(q="round_trip", kind="tensordict_entry", nesting=len(shape)), "TensorDict entry 'ids' does not survive the round trip", dict(B=B, shape=shape))
        ctx.nontrivial_case(dict(B=B, shape=shape, kind=kind, feat=feat))
    # the attention-model decoder's embedding cache is replicated with the same layout (row r = instance r mod B)
    if len(shape) == 1 and shape[0] > 1:
        from rl4co.models.zoo.am.decoder import PrecomputedCache

        k = shape[0]
        emb = (torch.arange(B).float() * 1000).reshape(B, 1, 1).expand(B, 4, 3).clone()
        cache = PrecomputedCache(node_embeddings=emb.clone(), graph_context=emb[:, :1].clone(), glimpse_key=emb.clone() + 1, glimpse_val=emb.clone() + 2, logit_key=emb.clone() + 3)
        cb = cache.batchify(k)
        ctx.evaluation()
        ctx.count("c12_cache_batchify_calls")
        want = (torch.arange(B * k) % B).float() * 1000
        for nm, off_ in (("node_embeddings", 0), ("graph_context", 0), ("glimpse_key", 1), ("glimpse_val", 2), ("logit_key", 3)):
            t = getattr(cb, nm)
            if t.shape[0] != B * k or not torch.equal(t.reshape(B * k, -1)[:, 0] - off_, want):
                ctx.violation(dict(q="row_instance", kind="decoder_cache", nesting=1), f"PrecomputedCache.batchify({k}): rows of {nm} are not instance r mod B (tags {(t.reshape(t.shape[0], -1)[:, 0] - off_).div(1000).long().tolist()})", dict(B=B, k=k))
                break
    # inputs untouched (mutation sanitizer)
    if not torch.equal(fp_x, x) or td_fingerprint(td.flatten_keys()) != fp_td:
        ctx.violation(dict(q="input_mutated"), "batchify/unbatchify modified their input", dict(B=B, shape=shape))
    # unbatchify_and_gather: pick copy idx[b] of every instance
    if len(shape) == 1 and shape[0] > 0:
        k = shape[0]
        vals = torch.arange(B * k).float() + 0.25  # row r value r
        idx = torch.tensor([rnd.randrange(k) for _ in range(B)])
        got = unbatchify_and_gather(vals, idx, k)
        want = torch.tensor([float(idx[b] * B + b) + 0.25 for b in range(B)])
        ctx.evaluation()
        ctx.count("c12_gather_calls")
        if got.shape != want.shape or not torch.equal(got, want):
            ctx.violation(dict(q="unbatchify_and_gather"), f"unbatchify_and_gather picked rows {got.tolist()} instead of {want.tolist()} (copy idx[b] of instance b lives at row idx[b]*B+b)", dict(B=B, k=k, idx=idx.tolist()))


# ------------------------------------------------------------------------------------------
def hostile_start_instances(env, cfg, td, B, seed):
    """make some first moves infeasible for some rows (so that 'feasible for their instance' bites)."""
    name = cfg["env"]
    g = torch.Generator().manual_seed(seed)
    if name == "op":
        # short max_length for half of the rows: far nodes cannot be the first move
        d = (td["locs"] - td["depot"][:, None, :]).norm(dim=-1)
        ml = td["max_length"].clone()
        half = B // 2
        ml[:half] = 2 * d[:half].median(dim=-1).values + 1e-3
        td["max_length"] = ml
    return td


def starts_case(ctx, case):
    cfg, B, seed = case["cfg"], case["B"], case["s"]
    name = cfg["env"]
    if name in ("flp", "mcp", "smtwtp"):
        env = envzoo.make_other(cfg)
        torch.manual_seed(seed)
        td_in = env.generator(batch_size=[B])
    else:
        env, _ = envzoo.make(cfg)
        if case.get("inst_n"):
            # instances of ANOTHER size than the env was constructed for (a model evaluated on larger / smaller instances than
            # its env's generator makes - the usual generalisation experiment): generated by a sibling env of that size
            cfg_i = dict(cfg, n=case["inst_n"])
            env_i, _ = envzoo.make(cfg_i)
            td_in = envzoo.instances(env_i, cfg_i, "gen", B, seed)
            ctx.count("c12_other_size_start_cases")
        else:
            td_in = envzoo.instances(env, cfg, "gen", B, seed)
        if case.get("hostile"):
            td_in = hostile_start_instances(env, cfg, td_in, B, seed)
    td = env.reset(td_in.clone())
    mask = td["action_mask"].reshape(B, -1)
    if case.get("inst_n") and "locs" in td.keys() and td["locs"].dim() == 3 and mask.shape[1] != td["locs"].shape[1]:
        # this env sizes its reset state from its generator (ATSP, PDP, mTSP, MDCPDP): instances of another size are not
        # supported by it at all, so there is no start rule to audit
        ctx.count("c12_other_size_unsupported_by_env")
        return
    default_k = int(env.get_num_starts(td))
    ks = sorted(set([1, 2, default_k, max(1, default_k - 1), default_k + 1, case.get("k", 3)]))
    for k in ks:
        if k < 1:
            continue
        torch.manual_seed(seed + k)
        try:
            sel = env.select_start_nodes(td.clone(), num_starts=k)
        except Exception as e:
            ctx.evaluation()
            ctx.violation(sig_of(cfg, q="select_start_nodes_raises", exc=type(e).__name__), f"select_start_nodes(k={k}) raised {type(e).__name__}: {str(e)[:160]}", dict(k=k, B=B))
            continue
        ctx.count("c12_start_calls")
        if sel.shape[0] != k * B:
            ctx.evaluation()
            ctx.violation(sig_of(cfg, q="start_shape"), f"select_start_nodes(k={k}) returned {tuple(sel.shape)} for batch {B}", dict(k=k, B=B))
            continue
        sel2 = sel.reshape(k, B)
        for b in range(B):
            ctx.evaluation()
            ctx.count("c12_start_rows")
            mine = sel2[:, b].tolist()
            feas = torch.nonzero(mask[b]).flatten().tolist()
            if name not in ("tsp", "atsp", "flp", "mcp"):
                # start rules never use the depot (returning at once is not a rollout): distinctness is judged among customers
                feas_c = [a for a in feas if a != 0]
            else:
                feas_c = feas
            bad = [a for a in mine if a < 0 or a >= mask.shape[1] or not bool(mask[b, a])]
            label = dict(hostile=bool(case.get("hostile")), k_vs_default="le" if k <= default_k else "gt")
            if case.get("inst_n"):
                label["inst_size"] = "larger" if case["inst_n"] > cfg["n"] else "smaller"
            if bad:
                ctx.violation(sig_of(cfg, q="start_infeasible", **label), f"forced start(s) {bad} of instance {b} are not in its reset mask (feasible: {feas})", dict(k=k, B=B, row=b, starts=mine, mask=mask[b].int().tolist()))
            elif len(feas_c) >= k and len(set(mine)) != len(mine):
                ctx.violation(sig_of(cfg, q="start_duplicates", **label), f"instance {b} has {len(feas_c)} feasible starts but its {k} forced starts repeat: {mine}", dict(k=k, B=B, row=b, starts=mine, feasible=feas))
            ctx.nontrivial_case(dict(e=name, k=k, m=mask[b].int().tolist(), s=mine))
    # ---- the random start rule used by SamplingEval and FJSP multi-start: rl4co.utils.ops.sample_n_random_actions --------
    from rl4co.utils.ops import sample_n_random_actions

    # the rule draws from ALL valid actions of the reset mask (column 0 included: a node like any other for TSP / FLP / MCP, the
    # depot where the reset mask offers it), so "at least k feasible starts" counts all of them
    n_cust = mask.sum(1)
    lo = int(n_cust.min())
    for k in sorted(set(x for x in (lo - 1, lo, lo + 1, 2, int(n_cust.max())) if x >= 1)):
        torch.manual_seed(seed + 100 + k)
        try:
            sel = sample_n_random_actions(td.clone(), k)
        except Exception as e:
            ctx.evaluation()
            ctx.violation(sig_of(cfg, q="random_starts_raise", exc=type(e).__name__), f"sample_n_random_actions(n={k}) raised {type(e).__name__}: {str(e)[:160]}", dict(k=k, B=B))
            continue
        ctx.count("c12_random_start_calls")
        if sel.numel() != k * B:
            ctx.evaluation()
            ctx.violation(sig_of(cfg, q="start_shape", rule="random"), f"sample_n_random_actions(n={k}) returned {tuple(sel.shape)} for batch {B}", dict(k=k, B=B))
            continue
        sel2 = sel.reshape(k, B)
        for b in range(B):
            ctx.evaluation()
            ctx.count("c12_random_start_rows")
            mine = sel2[:, b].tolist()
            bad = [a for a in mine if a < 0 or a >= mask.shape[1] or not bool(mask[b, a])]
            label = dict(rule="random", boundary=(k == int(n_cust[b])), mixed=bool(int(n_cust.min()) != int(n_cust.max())))
            if bad:
                ctx.violation(sig_of(cfg, q="start_infeasible", **label), f"random forced start(s) {bad} of instance {b} are not in its reset mask", dict(k=k, B=B, row=b, starts=mine, mask=mask[b].int().tolist()))
            elif int(n_cust[b]) >= k and len(set(mine)) != len(mine):
                ctx.violation(sig_of(cfg, q="start_duplicates", **label), f"instance {b} has {int(n_cust[b])} feasible starts but its {k} random forced starts repeat: {mine} (fewest in the batch: {lo})",
                              dict(k=k, B=B, row=b, starts=mine, n_feasible=n_cust.tolist()))
            ctx.nontrivial_case(dict(e=name, k=k, m=mask[b].int().tolist(), s=mine, r="random"))
    ctx.sample(dict(case=case, default_num_starts=default_k))


# ------------------------------------------------------------------------------------------
def make_policy(env, kind="am", seed=0):
    torch.manual_seed(seed)
    from rl4co.models import AttentionModelPolicy

    pol = AttentionModelPolicy(env_name=env.name, embed_dim=32, num_encoder_layers=1, num_heads=2)
    pol.eval()
    return pol


def policy_case(ctx, case):
    """multistart / multisample / select_best through the real policy forward, with taps."""
    cfg, B, seed, k = case["cfg"], case["B"], case["s"], case["k"]
    name = cfg["env"]
    env, O = envzoo.make(cfg)
    td_in = envzoo.instances(env, cfg, "gen", B, seed)
    pol = make_policy(env, seed=seed)
    td0 = env.reset(td_in.clone())
    insts = [O.extract(td_in, td0, b, env) for b in range(B)]
    decode = case["decode"]
    kw = dict(num_starts=k) if decode.startswith("multistart") else dict(num_samples=k)
    kw.update(decode_type=decode, select_best=case["select_best"])
    torch.manual_seed(seed + 1)
    with torch.no_grad(), PolicyTap(pol, keep_logits=False) as rec:
        try:
            out = pol(td0.clone(), env, phase="test", return_actions=True, **kw)
        except Exception as e:
            ctx.evaluation()
            ctx.violation(sig_of(cfg, q="policy_raises", decode=decode, exc=type(e).__name__, B1=(B == 1)), f"policy forward raised {type(e).__name__}: {str(e)[:200]}", dict(B=B, k=k))
            return
    ctx.count("c12_policy_calls")
    actions, reward, ll = out["actions"], out["reward"], out["log_likelihood"]
    tol = lambda x: 1e-4 * max(1.0, abs(x))
    if not case["select_best"]:
        rows = actions.shape[0]
        if rows != k * B:
            ctx.evaluation()
            ctx.violation(sig_of(cfg, q="rollout_rows", decode=decode), f"{decode} with k={k}, B={B} returned {rows} rows", None)
            return
        # row r must be a rollout of instance r mod B: its reward must be the objective of its actions on THAT instance
        for r in range(rows):
            b = r % B
            acts = strip(actions[r].tolist(), name)
            ctx.evaluation()
            ctx.count("c12_rollout_rows")
            ctx.nontrivial_case(dict(i=insts[b], a=acts))
            v = [x for x in O.violations(insts[b], acts) if x[1] == "violated"]
            ref = O.objective(insts[b], acts)
            if abs(float(reward[r]) - ref) > tol(ref):
                ctx.violation(sig_of(cfg, q="row_instance", decode=decode), f"row {r} (k={k}, B={B}) is not a rollout of instance {r % B}: reward {float(reward[r])} vs objective of its actions on that instance {ref}",
                              dict(row=r, B=B, k=k, actions=acts, inst=insts[b]))
                break
            if v:
                forced = decode.startswith("multistart")
                ctx.violation(sig_of(cfg, q="rollout_infeasible", decode="multistart" if forced else decode, constraint=v[0][0]),
                              f"row {r} (k={k}, B={B}): the rollout of instance {r % B} is infeasible ({v[0][0]}: {v[0][2]}); first action {acts[0]} was {'forced by the start rule' if forced else 'decoded'}",
                              dict(row=r, B=B, k=k, actions=acts, inst=insts[b]))
                break
        if decode.startswith("multistart") and rec.start_actions is not None:
            sa = rec.start_actions.reshape(k, B)
            if not torch.equal(actions[:, 0].reshape(k, B), sa):
                ctx.violation(sig_of(cfg, q="start_not_first_action", decode=decode), "the forced start actions are not the first actions of the returned rollouts", None)
            ctx.count("c12_start_taps")
        ctx.nontrivial_case(dict(c=case))
        return
    # select_best=True: compare with the candidates recorded INSIDE the same call
    sb = rec.select_best
    if sb is None:
        ctx.count("c12_select_best_tap_missed")
        return
    ctx.count("c12_select_best_taps")
    inp_r = sb["inp_reward"].reshape(k, B)
    inp_a = sb["inp_actions"].reshape(k, B, -1)
    inp_l = sb["inp_logprobs"].reshape(k, B, -1)
    for b in range(B):
        ctx.evaluation()
        ctx.count("c12_best_rows")
        ctx.nontrivial_case(dict(i=insts[b], a=inp_a[:, b].tolist()))
        # independent check of the candidates' rewards on instance b, then of the selection
        cand = []
        for j in range(k):
            acts = strip(inp_a[j, b].tolist(), name)
            cand.append(O.objective(insts[b], acts))
        best = max(cand)
        got_r = float(reward[b])
        if abs(got_r - best) > tol(best):
            ctx.violation(sig_of(cfg, q="best_reward", decode=decode), f"select_best returned reward {got_r} for instance {b}; the maximum over its own {k} rollouts is {best} (all: {cand})", dict(row=b, B=B, k=k, inst=insts[b]))
            continue
        j_ok = [j for j in range(k) if abs(cand[j] - best) <= tol(best)]
        if not any(torch.equal(actions[b], inp_a[j, b]) for j in j_ok):
            ctx.violation(sig_of(cfg, q="best_actions", decode=decode), f"instance {b}: returned actions are not those of a best rollout of that instance", dict(row=b, actions=actions[b].tolist(), candidates=inp_a[:, b].tolist(), rewards=cand))
            continue
        j_act = [j for j in j_ok if torch.equal(actions[b], inp_a[j, b])]
        want_ll = [float(inp_l[j, b].sum()) for j in j_act]
        if not any(abs(float(ll[b]) - w) <= 1e-4 * max(1.0, abs(w)) for w in want_ll):
            ctx.violation(sig_of(cfg, q="best_loglik", decode=decode), f"instance {b}: returned log-likelihood {float(ll[b])} is not that of the selected rollout ({want_ll})", dict(row=b))
            continue
        ref = O.objective(insts[b], strip(actions[b].tolist(), name))
        if abs(ref - got_r) > tol(ref):
            ctx.violation(sig_of(cfg, q="best_reward_vs_actions", decode=decode), f"instance {b}: returned reward {got_r} is not the objective {ref} of the returned actions on that instance", dict(row=b))
    ctx.nontrivial_case(dict(c=case))


def strip(acts, name):
    """drop trailing padding (repeated final depot visits) - harmless for the objective."""
    if name in ("tsp", "atsp", "pdp"):
        return acts
    while len(acts) > 1 and acts[-1] == 0 and acts[-2] == 0:
        acts = acts[:-1]
    return acts


# ------------------------------------------------------------------------------------------
def strategy_case(ctx, case):
    """The real DecodingStrategy API (pre_decoder_hook / step / post_decoder_hook) driven with random logits on envs
    whose reward is READ FROM THE FINAL STATE (FLP, MCP, mTSP min-max, JSSP, FJSP, SMTWTP): the state returned next to
    the selected actions must be the state those actions produce. Oracle: replay of the returned actions on fresh copies."""
    from rl4co.utils.decoding import get_decoding_strategy
    from rl4co.utils.ops import batchify

    cfg, B, k, seed = case["cfg"], case["B"], case["k"], case["s"]
    name = cfg["env"]
    env = envzoo.make(cfg)[0] if name == "mtsp" else envzoo.make_other(cfg)
    torch.manual_seed(seed)
    td_in = env.generator(batch_size=[B])
    td0 = env.reset(td_in.clone())
    multistart = case["decode"].startswith("multistart")
    kw = dict(num_starts=k) if multistart else dict(num_samples=k)
    s = get_decoding_strategy(case["decode"], select_best=case["select_best"], **kw)
    tapped = {}
    orig_sb = s._select_best

    def select_best(logprobs, actions, td, env_):
        tapped["actions"] = actions.clone()
        return orig_sb(logprobs, actions, td, env_)

    s._select_best = select_best
    g = torch.Generator().manual_seed(seed)
    sig = sig_of(cfg, decode=case["decode"], select_best=case["select_best"], via="strategy_api")
    try:
        td, env_, _ = s.pre_decoder_hook(td0.clone(), env)
        steps = 0
        while not td["done"].all() and steps < 500:
            mask = td["action_mask"]
            logits = torch.rand(mask.shape, generator=g)
            td = s.step(logits, mask.clone(), td)
            td = env_.step(td)["next"]
            steps += 1
        logprobs, actions, td, env_ = s.post_decoder_hook(td, env_)
        reward = env_.get_reward(td, actions)
    except Exception as e:
        ctx.evaluation()
        ctx.violation(dict(sig, q="raises", exc=type(e).__name__), f"decoding strategy raised {type(e).__name__}: {str(e)[:200]}", dict(B=B, k=k))
        return
    ctx.count("c12_strategy_calls")

    def replay(acts, td_src):
        td_r = env.reset(td_src.clone())
        for t in range(acts.shape[1]):
            td_r.set("action", acts[:, t].clone())
            td_r = env.step(td_r)["next"]
        return env.get_reward(td_r, acts.clone()).reshape(acts.shape[0], -1)[:, 0]

    tol = lambda x: 1e-5 * max(1.0, abs(x))
    if case["select_best"]:
        if "actions" not in tapped:
            ctx.count("c12_select_best_tap_missed")
            return
        ctx.count("c12_select_best_taps")
        cand = replay(tapped["actions"], batchify(td_in, k)).reshape(k, B)
        own = replay(actions, td_in)
        for b in range(B):
            ctx.evaluation()
            ctx.count("c12_best_rows")
            ctx.count("c12_state_reward_rows")
            got, best = float(reward.reshape(B, -1)[b, 0]), float(cand[:, b].max())
            if abs(got - float(own[b])) > tol(float(own[b])):
                ctx.violation(dict(sig, q="best_reward_vs_actions"), f"instance {b}: returned reward {got} is not the reward {float(own[b])} obtained by replaying the returned actions on a fresh copy of that instance (state and actions of different rollouts)", dict(B=B, k=k, actions=actions[b].tolist()))
                return
            if abs(got - best) > tol(best):
                ctx.violation(dict(sig, q="best_reward"), f"instance {b}: returned reward {got} != max over its own {k} rollouts {best} ({cand[:, b].tolist()})", dict(B=B, k=k))
                return
            ctx.nontrivial_case(dict(e=name, a=actions[b].tolist(), k=k))
    else:
        rep = replay(actions, batchify(td_in, k))
        for r in range(actions.shape[0]):
            ctx.evaluation()
            ctx.count("c12_rollout_rows")
            ctx.count("c12_state_reward_rows")
            got = float(reward.reshape(actions.shape[0], -1)[r, 0])
            if abs(got - float(rep[r])) > tol(float(rep[r])):
                ctx.violation(dict(sig, q="row_instance"), f"row {r}: reward {got} != reward {float(rep[r])} of its actions replayed on instance {r % B}", dict(B=B, k=k))
                return
            ctx.nontrivial_case(dict(e=name, a=actions[r].tolist(), k=k, r=r % B))
