"""Independent definitions for the scheduling environments (no rl4co imports).

FJSP / JSSP: an instance is (proc[m][o] integer times, 0 = not eligible; jobs as op ranges;
padded ops). A schedule is (start[o], finish[o], machine[o]).
FFSP: run_time[j][machine_total], S stages x K machines per stage; schedule[m][j] = start.
SMTWTP: permutation of jobs 1..n, reward = -sum w*max(0, C-d).
"""
from __future__ import annotations

import math


# ------------------------------------------------------------------------------------------
class JobShop:
    """FJSP and JSSP share the state layout."""

    @staticmethod
    def extract(td0, b):
        proc = td0["proc_times"][b].tolist()  # [M][O]
        s = [int(x) for x in td0["start_op_per_job"][b].tolist()]
        e = [int(x) for x in td0["end_op_per_job"][b].tolist()]
        pad = [bool(x) for x in td0["pad_mask"][b].tolist()]
        return dict(proc=proc, job_start=s, job_end=e, pad=pad)

    @staticmethod
    def n_real_ops(inst):
        return sum(1 for p in inst["pad"] if not p)

    @staticmethod
    def step_bound(inst):
        n = JobShop.n_real_ops(inst)
        return 2 * n + 1

    @staticmethod
    def schedule_violations(inst, start, finish, assign, init_finish=None):
        """start/finish: [O]; assign: [M][O] 0/1. Returns list[(rule, info)], makespan."""
        proc, pad = inst["proc"], inst["pad"]
        M, O = len(proc), len(pad)
        out = []
        mach = [None] * O
        for o in range(O):
            ms = [m for m in range(M) if assign[m][o] != 0]
            if pad[o]:
                if ms:
                    out.append(("padded_op_scheduled", f"padded op {o} assigned to machines {ms}"))
                continue
            if len(ms) != 1:
                out.append(("exactly_once", f"op {o} assigned to machines {ms}"))
                continue
            m = ms[0]
            mach[o] = m
            if not proc[m][o] > 0:
                out.append(("eligible", f"op {o} on machine {m} which is not eligible (proc time {proc[m][o]})"))
            elif finish[o] - start[o] != proc[m][o]:
                out.append(("duration", f"op {o} on machine {m}: finish-start = {finish[o]-start[o]} != proc time {proc[m][o]}"))
            if start[o] < 0:
                out.append(("negative_start", f"op {o} starts at {start[o]}"))
        # a job is a contiguous op range that contains at least one real op
        for j, (s, e) in enumerate(zip(inst["job_start"], inst["job_end"])):
            ops = [o for o in range(s, e + 1) if o < O and not pad[o]]
            for a, b2 in zip(ops, ops[1:]):
                if mach[a] is not None and mach[b2] is not None and start[b2] < finish[a]:
                    out.append(("job_precedence", f"job {j}: op {b2} starts {start[b2]} before op {a} finishes {finish[a]}"))
        for m in range(M):
            iv = sorted((start[o], finish[o], o) for o in range(O) if mach[o] == m)
            for (s1, f1, o1), (s2, f2, o2) in zip(iv, iv[1:]):
                if s2 < f1:
                    out.append(("machine_overlap", f"machine {m}: ops {o1} [{s1},{f1}) and {o2} [{s2},{f2}) overlap"))
        real_f = [finish[o] for o in range(O) if not pad[o] and mach[o] is not None]
        mk = max(real_f) if real_f else 0.0
        return out, mk

    @staticmethod
    def simulate(inst, actions, decode, wait_allowed_when_in_process):
        """Reference event-driven simulator: rebuild the schedule from the action sequence alone.
        decode(a, next_op, proc) -> (job, machine) for a>=1 ; a == 0 is 'wait'.
        Returns (start, finish, mach, done, error)"""
        proc, pad = inst["proc"], inst["pad"]
        M, O = len(proc), len(pad)
        J = len(inst["job_start"])
        js, je = inst["job_start"], inst["job_end"]
        real_job = [any((o < O and not pad[o]) for o in range(js[j], je[j] + 1)) for j in range(J)]
        nxt = list(js)
        in_proc = [False] * J
        jdone = [not real_job[j] for j in range(J)]
        # NOTE: the library has no notion of an empty job; padded jobs do not occur in its generators
        busy = [0.0] * M
        start, finish, mach = [None] * O, [None] * O, [None] * O
        t = 0.0

        def feasible_exists():
            for j in range(J):
                if jdone[j] or in_proc[j]:
                    continue
                for m in range(M):
                    if busy[m] <= t and proc[m][nxt[j]] > 0:
                        return True
            return False

        def advance():
            nonlocal t
            later = [b for b in busy if b > t]
            if not later:
                return False
            t = min(later)
            for j in range(J):
                if in_proc[j] and finish[nxt[j]] <= t:
                    in_proc[j] = False
                    if nxt[j] == je[j]:
                        jdone[j] = True
                    else:
                        nxt[j] += 1
            return True

        for k, a in enumerate(actions):
            if all(jdone):
                break
            if a == 0:
                if not advance():
                    return start, finish, mach, all(jdone), f"wait at step {k} with nothing in process"
            else:
                j, m = decode(a, nxt, proc)
                o = nxt[j]
                if jdone[j] or in_proc[j] or busy[m] > t or not proc[m][o] > 0:
                    return start, finish, mach, all(jdone), f"step {k}: action {a} (job {j}, machine {m}) is not schedulable at time {t}"
                start[o], finish[o], mach[o] = t, t + proc[m][o], m
                busy[m] = t + proc[m][o]
                in_proc[j] = True
            while not all(jdone):
                if feasible_exists():
                    break
                if wait_allowed_when_in_process and any(in_proc):
                    break  # the agent has to wait explicitly
                if not advance():
                    return start, finish, mach, all(jdone), f"stuck after step {k}"
        return start, finish, mach, all(jdone), None


def fjsp_decode(num_mas):
    def d(a, nxt, proc):
        a = a - 1
        return a // num_mas, a % num_mas

    return d


def jssp_decode():
    def d(a, nxt, proc):
        j = a - 1
        o = nxt[j]
        ms = [m for m in range(len(proc)) if proc[m][o] > 0]
        return j, ms[0]

    return d


# ------------------------------------------------------------------------------------------
class FlowShop:
    @staticmethod
    def extract(td_in, b, num_stage, num_machine):
        return dict(run=td_in["run_time"][b].tolist(), S=num_stage, K=num_machine)

    @staticmethod
    def step_bound(inst):
        J, S, K = len(inst["run"]), inst["S"], inst["K"]
        tot = sum(max(r) for r in inst["run"])
        return J * S + (tot + 1) * S * K + 1

    @staticmethod
    def schedule_violations(inst, schedule):
        """schedule[m][j] = start time or negative (unscheduled). Returns (violations, makespan)."""
        run, S, K = inst["run"], inst["S"], inst["K"]
        J = len(run)
        out = []
        per_job = []
        for j in range(J):
            stages = []
            for s in range(S):
                ms = [m for m in range(s * K, (s + 1) * K) if schedule[m][j] >= 0]
                if len(ms) != 1:
                    out.append(("exactly_once", f"job {j} stage {s} processed on machines {ms}"))
                    stages.append(None)
                else:
                    m = ms[0]
                    stages.append((schedule[m][j], schedule[m][j] + run[j][m], m))
            per_job.append(stages)
            for s in range(S - 1):
                if stages[s] and stages[s + 1] and stages[s + 1][0] < stages[s][1]:
                    out.append(("stage_order", f"job {j}: stage {s+1} starts {stages[s+1][0]} before stage {s} ends {stages[s][1]}"))
        M = S * K
        for m in range(M):
            iv = sorted((schedule[m][j], schedule[m][j] + run[j][m], j) for j in range(J) if schedule[m][j] >= 0)
            for (s1, f1, j1), (s2, f2, j2) in zip(iv, iv[1:]):
                if s2 < f1:
                    out.append(("machine_overlap", f"machine {m}: jobs {j1} [{s1},{f1}) and {j2} [{s2},{f2}) overlap"))
        ends = [st[1] for stages in per_job for st in stages if st]
        return out, (max(ends) if ends else 0)


# ------------------------------------------------------------------------------------------
class SMTWTP:
    @staticmethod
    def extract(td0, b):
        return dict(due=td0["job_due_time"][b].tolist(), w=td0["job_weight"][b].tolist(), p=td0["job_process_time"][b].tolist())

    @staticmethod
    def violations(inst, actions):
        n = len(inst["p"]) - 1
        out = []
        if 0 in actions:
            out.append(("dummy_scheduled", "the dummy start node 0 was scheduled"))
        if sorted(actions) != list(range(1, n + 1)):
            out.append(("permutation", f"actions are not a permutation of 1..{n}: {actions}"))
        return out

    @staticmethod
    def objective(inst, actions):
        t, tot = 0.0, 0.0
        for a in actions:
            t += inst["p"][a]
            tot += inst["w"][a] * max(0.0, t - inst["due"][a])
        return -tot

    @staticmethod
    def step_bound(inst):
        return len(inst["p"]) - 1


def selftest():
    inst = dict(proc=[[3, 0, 2], [0, 4, 2]], job_start=[0, 2], job_end=[1, 2], pad=[False, False, False])
    # job0: op0 (m0,3) then op1 (m1,4); job1: op2 on m0 or m1 (2)
    st, fi, ma, done, err = JobShop.simulate(inst, [1, 4], fjsp_decode(2), False)
    # action 1 -> job0 on m0 at t=0 ; action 4 -> (a-1)=3 -> job1, m1 at t=0; then auto-advance; job0 op1 must be scheduled
    assert err is None and not done and st[0] == 0 and st[2] == 0 and fi[2] == 2
    st, fi, ma, done, err = JobShop.simulate(inst, [1, 4, 2], fjsp_decode(2), False)
    assert err is None and done and st[1] == 3 and fi[1] == 7, (st, fi, err)
    assign = [[1, 0, 0], [0, 1, 1]]
    v, mk = JobShop.schedule_violations(inst, st, fi, assign)
    assert not v and mk == 7
    v, mk = JobShop.schedule_violations(inst, [0, 2, 0], [3, 6, 2], assign)
    assert any(x[0] == "job_precedence" for x in v)
    v, mk = JobShop.schedule_violations(inst, [0, 3, 3], [3, 7, 5], assign)
    assert any(x[0] == "machine_overlap" for x in v)
    fs = dict(run=[[2, 3, 4, 5], [1, 1, 1, 1]], S=2, K=2)
    sch = [[0, -999999], [-999999, 0], [2, -999999], [-999999, 1]]
    v, mk = FlowShop.schedule_violations(fs, sch)
    assert not v and mk == 6, (v, mk)
    sch[2][0] = 1
    v, mk = FlowShop.schedule_violations(fs, sch)
    assert any(x[0] == "stage_order" for x in v)
    sm = dict(due=[0, 1.0, 1.0], w=[0, 2.0, 1.0], p=[0, 1.0, 1.5])
    assert abs(SMTWTP.objective(sm, [1, 2]) + 1.5) < 1e-12 and abs(SMTWTP.objective(sm, [2, 1]) + (0.5 + 3.0)) < 1e-12
    return True


selftest()
