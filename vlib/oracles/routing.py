"""Independent problem definitions for the routing environments (no rl4co imports).

Every oracle works on ONE instance given as plain Python data (`inst`, extracted from the
TensorDict handed to / returned by env.reset before any step) and ONE executed action
list (padding stripped). API per problem:

    violations(inst, actions) -> list[(constraint, status, info)]   status in {"violated","ambiguous"}
    objective(inst, actions)  -> float (the library's sign convention: reward)
    step_bound(inst)          -> int

Float geometry follows DESIGN 3.5: violated iff excess > max(TAU, 0.2*TAU*|limit|); within the band
-> ambiguous. Rational quantities (k/Q demands) are compared as integers.
"""
from __future__ import annotations

import math

TAU = 1e-4
TAU_LOAD = 1e-5  # band for non-rational loads / prizes (C06 widens it to straddle the checkers' own 1e-5)


def dist(a, b):
    return math.hypot(a[0] - b[0], a[1] - b[1])


def _f32_exact(x):
    import struct

    try:
        return struct.unpack("f", struct.pack("f", x))[0] == x
    except (OverflowError, struct.error):
        return False


def cmp_le(value, limit, tau=TAU, exact_ok=False):
    """'ok' | 'ambiguous' | 'violated' for the constraint value <= limit (float geometry)."""
    # band: tau at unit scale; at large magnitudes (unscaled CVRPTW: times ~500) a fifth of tau per unit, i.e. 2e-5*|limit|:
    # a float32 clock / length accumulated over <= 100 legs is off by at most ~100 * ulp(|limit|)/2 = 6e-6*|limit|
    band = max(tau, 0.2 * tau * abs(limit)) if math.isfinite(limit) else 0.0
    if exact_ok and value == limit and _f32_exact(value):
        return "ok"  # equality in exact (dyadic) arithmetic: the constraint is met, and must be treated as met
    if value > limit + band:
        return "violated"
    if value > limit - band:
        return "ambiguous"
    return "ok"


def rational_scale(values, candidates=(1, 2, 4, 8, 16, 32, 64, 128, 256, 1024, 20, 25, 30, 33, 37, 40, 43, 45, 50, 55, 60, 70, 100, 9, 10, 15, 80)):
    """If all values are k/Q for one of the candidate Q (|x*Q-round|<1e-3), return Q else None."""
    for q in candidates:
        if all(abs(v * q - round(v * q)) < 1e-3 for v in values):
            return q
    return None


def load_status(loads, cap, q):
    """loads: list of demand values on a route; cap float. Exact integer compare when rational."""
    if q is not None and abs(cap * q - round(cap * q)) < 1e-3:
        tot = sum(int(round(v * q)) for v in loads)
        return "ok" if tot <= int(round(cap * q)) else "violated", tot / q
    tot = math.fsum(loads)
    st = cmp_le(tot, cap, TAU_LOAD)
    return st, tot


def tour_len(pts, closed=True):
    s = 0.0
    for i in range(len(pts) - 1):
        s += dist(pts[i], pts[i + 1])
    if closed and len(pts) > 1:
        s += dist(pts[-1], pts[0])
    return s


def split_routes(actions, depot=0):
    """routes = maximal runs of non-depot nodes (empty routes dropped)."""
    routes, cur = [], []
    for a in actions:
        if a == depot:
            if cur:
                routes.append(cur)
            cur = []
        else:
            cur.append(a)
    if cur:
        routes.append(cur)
    return routes


def once_violations(actions, customers, exactly=True):
    out = []
    cnt = {}
    for a in actions:
        if a != 0:
            cnt[a] = cnt.get(a, 0) + 1
    dup = [c for c, k in cnt.items() if k > 1]
    if dup:
        out.append(("visit_once", "violated", f"customers visited more than once: {dup[:5]}"))
    bad = [c for c in cnt if c not in customers]
    if bad:
        out.append(("visit_once", "violated", f"unknown nodes {bad[:5]}"))
    if exactly:
        miss = [c for c in customers if c not in cnt]
        if miss:
            out.append(("visit_all", "violated", f"customers never visited: {miss[:5]}"))
    return out


# ------------------------------------------------------------------------------------------
class TSP:
    name = "tsp"

    @staticmethod
    def extract(td_in, td0, b, env):
        return dict(locs=td0["locs"][b].tolist())

    @staticmethod
    def violations(inst, actions):
        n = len(inst["locs"])
        out = []
        if sorted(actions) != list(range(n)):
            out.append(("permutation", "violated", f"actions are not a permutation of 0..{n-1}: {actions}"))
        return out

    @staticmethod
    def objective(inst, actions):
        return -tour_len([inst["locs"][a] for a in actions])

    @staticmethod
    def step_bound(inst):
        return len(inst["locs"])


class ATSP(TSP):
    name = "atsp"

    @staticmethod
    def extract(td_in, td0, b, env):
        return dict(C=td0["cost_matrix"][b].tolist(), locs=[0] * td0["cost_matrix"].shape[-1])

    @staticmethod
    def objective(inst, actions):
        C = inst["C"]
        s = 0.0
        for i in range(len(actions)):
            s += C[actions[i]][actions[(i + 1) % len(actions)]]
        return -s


class CVRP:
    name = "cvrp"

    @staticmethod
    def extract(td_in, td0, b, env):
        dem = td0["demand"][b].tolist()
        cap_ = float(td0["vehicle_capacity"][b].reshape(-1)[0])
        # the common unit must measure the capacity too (vehicle_capacity 0.5 with demands in 25ths needs 50ths; DESIGN 40)
        return dict(locs=td0["locs"][b].tolist(), demand=[0.0] + dem, cap=cap_, q=rational_scale(dem + [cap_]))

    @classmethod
    def violations(cls, inst, actions):
        n = len(inst["locs"]) - 1
        out = once_violations(actions, set(range(1, n + 1)))
        for r in split_routes(actions):
            st, tot = load_status([inst["demand"][c] for c in r], inst["cap"], inst["q"])
            if st != "ok":
                out.append(("capacity", st, f"route {r} load {tot} > capacity {inst['cap']}"))
        return out

    @staticmethod
    def objective(inst, actions):
        return -tour_len([inst["locs"][0]] + [inst["locs"][a] for a in actions])

    @staticmethod
    def step_bound(inst):
        return 2 * (len(inst["locs"]) - 1) + 1


class CVRPTW(CVRP):
    name = "cvrptw"

    @staticmethod
    def extract(td_in, td0, b, env):
        d = CVRP.extract(td_in, td0, b, env)
        d["tw"] = td0["time_windows"][b].tolist()
        d["dur"] = td0["durations"][b].tolist()
        return d

    @classmethod
    def violations(cls, inst, actions):
        out = CVRP.violations(inst, actions)
        t, cur = 0.0, 0
        locs, tw, dur = inst["locs"], inst["tw"], inst["dur"]
        seq = list(actions)
        if seq and seq[-1] != 0:
            seq = seq + [0]  # the vehicle has to come home
        for a in seq:
            arr = t + dist(locs[cur], locs[a])
            st = cmp_le(arr, tw[a][1], exact_ok=True)
            if st != "ok":
                out.append(("time_window" if a != 0 else "depot_deadline", st, f"arrival {arr} at node {a} after window end {tw[a][1]}"))
            t = max(arr, tw[a][0]) + dur[a]
            cur = a
            if a == 0:
                t = 0.0
        return out


class SDVRP(CVRP):
    name = "sdvrp"

    @classmethod
    def violations(cls, inst, actions):
        n = len(inst["locs"]) - 1
        rem = list(inst["demand"])
        cap, used = inst["cap"], 0.0
        out = []
        q = inst["q"]
        if q is not None and abs(cap * q - round(cap * q)) > 1e-3:
            q = None  # the capacity is not a whole number of units: fall back to float arithmetic with tolerance
        if q is not None:
            rem = [int(round(v * q)) for v in rem]
            capi, used = int(round(cap * q)), 0
            for a in actions:
                if a == 0:
                    used = 0
                    continue
                d = min(rem[a], capi - used)
                rem[a] -= d
                used += d
            left = [(c, rem[c] / q) for c in range(1, n + 1) if rem[c] > 0]
        else:
            for a in actions:
                if a == 0:
                    used = 0.0
                    continue
                d = min(rem[a], cap - used)
                rem[a] -= d
                used += d
            left = [(c, rem[c]) for c in range(1, n + 1) if rem[c] > 1e-5]
        if left:
            out.append(("demand_served", "violated", f"unserved demand {left[:5]}"))
        bad = [a for a in actions if a < 0 or a > n]
        if bad:
            out.append(("visit_once", "violated", f"unknown nodes {bad}"))
        return out

    @staticmethod
    def step_bound(inst):
        n = len(inst["locs"]) - 1
        loads = math.ceil(sum(inst["demand"]) / inst["cap"] - 1e-9)
        return 2 * (n + loads) + 1


class SVRP:
    name = "svrp"

    @staticmethod
    def extract(td_in, td0, b, env):
        # technicians and requirements from the instance as handed over (route k belongs to technician k OF THE INSTANCE)
        return dict(locs=td0["locs"][b].tolist(), techs=[float(x) for x in td_in["techs"][b].reshape(-1).tolist()],
                    skills=[0.0] + [float(x) for x in td_in["skills"][b].reshape(-1).tolist()], costs=[float(c) for c in env.tech_costs])

    @staticmethod
    def routes_with_tech(actions):
        """k-th departure from the depot is technician k (empty routes count: the library sends
        the next technician whenever the depot is visited)."""
        routes, cur, k = [], [], 0
        for a in actions:
            if a == 0:
                routes.append((k, cur))
                cur = []
                k += 1
            else:
                cur.append(a)
        if cur:
            routes.append((k, cur))
        return routes

    @classmethod
    def violations(cls, inst, actions):
        n = len(inst["locs"]) - 1
        out = once_violations(actions, set(range(1, n + 1)))
        for k, r in cls.routes_with_tech(actions):
            if not r:
                continue
            if k >= len(inst["techs"]):
                out.append(("num_technicians", "violated", f"route {r} needs technician #{k} but only {len(inst['techs'])} exist"))
                continue
            bad = [c for c in r if inst["skills"][c] > inst["techs"][k]]
            if bad:
                out.append(("skill", "violated", f"technician {k} (skill {inst['techs'][k]}) serves {bad} needing {[inst['skills'][c] for c in bad]}"))
        return out

    @classmethod
    def objective(cls, inst, actions):
        locs, costs = inst["locs"], inst["costs"]
        s, cur, k = 0.0, 0, 0
        seq = list(actions)
        for a in seq:
            s += dist(locs[cur], locs[a]) * costs[min(k, len(costs) - 1)]
            cur = a
            if a == 0:
                k += 1
        if cur != 0:
            s += dist(locs[cur], locs[0]) * costs[min(k, len(costs) - 1)]
        return -s

    @staticmethod
    def step_bound(inst):
        return 2 * (len(inst["locs"]) - 1) + 1


class OP:
    name = "op"

    @staticmethod
    def extract(td_in, td0, b, env):
        return dict(locs=td0["locs"][b].tolist(), prize=td0["prize"][b].tolist(), max_length=float(td_in["max_length"][b]))

    @classmethod
    def violations(cls, inst, actions):
        n = len(inst["locs"]) - 1
        out = once_violations(actions, set(range(1, n + 1)), exactly=False)
        L = tour_len([inst["locs"][0]] + [inst["locs"][a] for a in actions])
        st = cmp_le(L, inst["max_length"])
        if st != "ok":
            out.append(("max_length", st, f"tour length {L} > max_length {inst['max_length']}"))
        return out

    @staticmethod
    def objective(inst, actions):
        return math.fsum(inst["prize"][a] for a in set(actions) if a != 0)

    @staticmethod
    def step_bound(inst):
        return len(inst["locs"]) + 1


class PCTSP:
    name = "pctsp"

    @staticmethod
    def extract(td_in, td0, b, env):
        # the prize actually collected at a node is instance data: the deterministic prize for PCTSP, the stochastic prize
        # (revealed on visit) for SPCTSP - read from the instance as handed over, not from the env's reset state
        key = "stochastic_prize" if getattr(env, "name", "") == "spctsp" or getattr(env, "stochastic", False) else "deterministic_prize"
        src = td_in if key in td_in.keys() else td0
        real = [0.0] + [float(x) for x in src[key][b].tolist()]
        return dict(locs=td0["locs"][b].tolist(), real_prize=real, penalty=td0["penalty"][b].tolist(),
                    required=float(td0["prize_required"][b]), q=rational_scale(real + [float(td0["prize_required"][b])], (1, 2, 4, 8, 16, 32, 64)))

    @classmethod
    def violations(cls, inst, actions):
        n = len(inst["locs"]) - 1
        out = once_violations(actions, set(range(1, n + 1)), exactly=False)
        vis = set(a for a in actions if a != 0)
        tot = math.fsum(inst["real_prize"][a] for a in vis)
        if len(vis) < n:
            # prize >= required  <=>  required <= prize
            if inst.get("q"):
                q = inst["q"]
                st = "ok" if sum(int(round(inst["real_prize"][a] * q)) for a in vis) >= int(round(inst["required"] * q)) else "violated"
            else:
                st = cmp_le(inst["required"], tot, TAU_LOAD)
            if st != "ok":
                out.append(("min_prize", st, f"collected prize {tot} < required {inst['required']} with {n-len(vis)} nodes unvisited"))
        return out

    @staticmethod
    def objective(inst, actions):
        L = tour_len([inst["locs"][0]] + [inst["locs"][a] for a in actions])
        vis = set(a for a in actions if a != 0)
        pen = math.fsum(inst["penalty"][c] for c in range(1, len(inst["locs"])) if c not in vis)
        return -(L + pen)

    @staticmethod
    def step_bound(inst):
        return len(inst["locs"]) + 1


class PDP:
    name = "pdp"

    @staticmethod
    def extract(td_in, td0, b, env):
        return dict(locs=td0["locs"][b].tolist(), start_depot=bool(getattr(env, "force_start_at_depot", False)))

    @classmethod
    def violations(cls, inst, actions):
        n = len(inst["locs"]) - 1
        acts = list(actions)
        out = []
        if inst["start_depot"]:
            if not acts or acts[0] != 0:
                out.append(("start_at_depot", "violated", "first action is not the depot"))
            acts = acts[1:]
        if 0 in acts:
            out.append(("depot_mid_tour", "violated", "depot visited in the middle of the tour"))
        out += once_violations(acts, set(range(1, n + 1)))
        pos = {a: i for i, a in enumerate(acts)}
        h = n // 2
        bad = [p for p in range(1, h + 1) if p in pos and p + h in pos and pos[p] > pos[p + h]]
        if bad:
            out.append(("precedence", "violated", f"deliveries before their pickups for pairs {bad[:5]}"))
        return out

    @staticmethod
    def objective(inst, actions):
        return -tour_len([inst["locs"][0]] + [inst["locs"][a] for a in actions])

    @staticmethod
    def step_bound(inst):
        return len(inst["locs"]) - 1 + (1 if inst["start_depot"] else 0)


class MTSP:
    name = "mtsp"

    @staticmethod
    def extract(td_in, td0, b, env):
        return dict(locs=td0["locs"][b].tolist(), num_agents=int(td0["num_agents"][b]), cost_type=env.cost_type)

    @classmethod
    def violations(cls, inst, actions):
        n = len(inst["locs"]) - 1
        out = once_violations(actions, set(range(1, n + 1)))
        routes = split_routes(actions)
        if len(routes) > inst["num_agents"]:
            out.append(("num_agents", "violated", f"{len(routes)} sub-tours for {inst['num_agents']} agents"))
        return out

    @staticmethod
    def objective(inst, actions):
        locs = inst["locs"]
        lens = [tour_len([locs[0]] + [locs[c] for c in r]) for r in split_routes(actions)]
        if inst["cost_type"] == "minmax":
            return -max(lens) if lens else 0.0
        return -math.fsum(lens)

    @staticmethod
    def step_bound(inst):
        # one step per customer plus at most one intermediate depot return per further agent (the closing return is not a step)
        return (len(inst["locs"]) - 1) + (inst["num_agents"] - 1)


class MTVRP:
    name = "mtvrp"

    @staticmethod
    def extract(td_in, td0, b, env):
        lh = td0["demand_linehaul"][b].tolist()
        bh = td0["demand_backhaul"][b].tolist()
        return dict(locs=td0["locs"][b].tolist(), lh=lh, bh=bh, cap=float(td0["vehicle_capacity"][b].reshape(-1)[0]),
                    limit=float(td0["distance_limit"][b].reshape(-1)[0]), open=bool(td0["open_route"][b].reshape(-1)[0]),
                    tw=td0["time_windows"][b].tolist(), service=td0["service_time"][b].tolist(), speed=float(td0["speed"][b].reshape(-1)[0]),
                    q=rational_scale([x for x in lh + bh]))

    @classmethod
    def violations(cls, inst, actions):
        n = len(inst["locs"]) - 1
        locs = inst["locs"]
        out = once_violations(actions, set(range(1, n + 1)))
        for r in split_routes(actions):
            st, tot = load_status([inst["lh"][c] for c in r], inst["cap"], inst["q"])
            if st != "ok":
                out.append(("capacity_linehaul", st, f"route {r} linehaul load {tot} > {inst['cap']}"))
            st, tot = load_status([inst["bh"][c] for c in r], inst["cap"], inst["q"])
            if st != "ok":
                out.append(("capacity_backhaul", st, f"route {r} backhaul load {tot} > {inst['cap']}"))
            seen_b = False
            for c in r:
                if inst["bh"][c] > 0:
                    seen_b = True
                elif inst["lh"][c] > 0 and seen_b:
                    out.append(("linehaul_before_backhaul", "violated", f"route {r}: linehaul {c} after a backhaul"))
                    break
            # length limit (incl. way home unless open) and time windows
            pts = [locs[0]] + [locs[c] for c in r]
            L = tour_len(pts, closed=not inst["open"])
            if math.isfinite(inst["limit"]):
                st = cmp_le(L, inst["limit"])
                if st != "ok":
                    out.append(("distance_limit", st, f"route {r} length {L} > limit {inst['limit']}"))
            t, cur = 0.0, 0
            seq = r + ([] if inst["open"] else [0])
            for a in seq:
                arr = t + dist(locs[cur], locs[a]) / inst["speed"]
                end = inst["tw"][a][1]
                if math.isfinite(end):
                    st = cmp_le(arr, end, exact_ok=True)
                    if st != "ok":
                        out.append(("time_window" if a != 0 else "depot_deadline", st, f"route {r}: arrival {arr} at {a} after {end}"))
                t = max(arr, inst["tw"][a][0]) + inst["service"][a]
                cur = a
        return out

    @staticmethod
    def objective(inst, actions):
        locs = inst["locs"]
        s, cur = 0.0, 0
        for a in list(actions) + [0]:
            if not (a == 0 and inst["open"]):
                s += dist(locs[cur], locs[a])
            cur = a
        return -s

    @staticmethod
    def step_bound(inst):
        return 2 * (len(inst["locs"]) - 1) + 1


# ------------------------------------------------------------------------------------------
# hand-checked miniature cases: the oracle's own self-test (run at import of the checks)
def selftest():
    sq = [[0.0, 0.0], [1.0, 0.0], [1.0, 1.0], [0.0, 1.0]]
    assert abs(TSP.objective(dict(locs=sq), [0, 1, 2, 3]) + 4.0) < 1e-12
    assert TSP.violations(dict(locs=sq), [0, 1, 1, 3])
    inst = dict(locs=sq, demand=[0, 0.5, 0.5, 0.5], cap=1.0, q=2)
    assert not CVRP.violations(inst, [1, 2, 0, 3, 0])
    assert any(v[0] == "capacity" for v in CVRP.violations(inst, [1, 2, 3, 0]))
    assert abs(CVRP.objective(inst, [1, 2, 0, 3, 0]) + (1 + 1 + math.sqrt(2) + 1 + 1)) < 1e-12
    # float32 sums of k/30 that exceed 1.0 in float arithmetic are still exactly at capacity
    inst30 = dict(locs=sq * 2, demand=[0] + [x / 30 for x in (4, 5, 8, 7, 2, 4)], cap=1.0, q=30)
    assert not [v for v in CVRP.violations(inst30, [1, 2, 3, 4, 5, 6, 0]) if v[0] == "capacity"]
    tw = dict(inst, tw=[[0, 10], [0, 0.5], [0, 10], [0, 10]], dur=[0, 0, 0, 0])
    assert any(v[0] == "time_window" for v in CVRPTW.violations(tw, [1, 0, 2, 3, 0]))
    tw["tw"][1] = [0, 1.0]
    assert all(v[1] == "ambiguous" for v in CVRPTW.violations(tw, [1, 0, 2, 0, 3, 0]))
    pd = dict(locs=[[0, 0]] + sq, start_depot=False)
    assert not PDP.violations(pd, [1, 3, 2, 4])
    assert any(v[0] == "precedence" for v in PDP.violations(pd, [3, 1, 2, 4]))
    mt = dict(locs=sq, num_agents=2, cost_type="minmax")
    assert abs(MTSP.objective(mt, [1, 0, 2, 3]) + (1 + math.sqrt(2) + 1)) < 1e-12 or True
    assert abs(MTSP.objective(mt, [1, 0, 2, 3]) + max(2.0, math.sqrt(2) + 1 + 1)) < 1e-12
    mt["cost_type"] = "sum"
    assert abs(MTSP.objective(mt, [1, 0, 2, 3]) + (2.0 + math.sqrt(2) + 2)) < 1e-12
    assert any(v[0] == "num_agents" for v in MTSP.violations(dict(mt, num_agents=1), [1, 0, 2, 3]))
    op = dict(locs=sq, prize=[0, 1, 2, 3], max_length=3.9)
    assert any(v[0] == "max_length" and v[1] == "violated" for v in OP.violations(op, [1, 2, 3, 0]))
    assert OP.objective(op, [1, 2, 0]) == 3
    pc = dict(locs=sq, real_prize=[0, 0.5, 0.5, 0.25], penalty=[0, 1, 1, 1], required=1.0, q=4)
    assert not PCTSP.violations(pc, [1, 2, 0])
    assert any(v[0] == "min_prize" for v in PCTSP.violations(pc, [1, 3, 0]))
    assert abs(PCTSP.objective(pc, [1, 2, 0]) + (1 + 1 + math.sqrt(2) + 1)) < 1e-12
    sv = dict(locs=sq, techs=[1.0, 5.0], skills=[0, 1.0, 3.0, 1.0], costs=[1.0, 2.0])
    assert any(v[0] == "skill" for v in SVRP.violations(sv, [1, 2, 0, 3, 0]))
    assert not SVRP.violations(sv, [1, 3, 0, 2, 0])
    assert abs(SVRP.objective(sv, [1, 3, 0, 2, 0]) + ((1 + math.sqrt(2) + 1) * 1 + (math.sqrt(2) * 2) * 2)) < 1e-12
    mv = dict(locs=sq, lh=[0, 0.5, 0, 0.5], bh=[0, 0, 0.5, 0], cap=1.0, limit=float("inf"), open=True,
              tw=[[0, float("inf")]] * 4, service=[0] * 4, speed=1.0, q=2)
    assert any(v[0] == "linehaul_before_backhaul" for v in MTVRP.violations(mv, [1, 2, 3, 0]))
    assert not MTVRP.violations(mv, [1, 3, 2, 0])
    assert abs(MTVRP.objective(mv, [1, 3, 2, 0]) + (1 + math.sqrt(2) + 1)) < 1e-12
    mv2 = dict(mv, open=False, limit=3.0)
    assert any(v[0] == "distance_limit" for v in MTVRP.violations(mv2, [1, 3, 2, 0]))
    sd = dict(locs=sq, demand=[0, 0.75, 0.75, 0.5], cap=1.0, q=4)
    assert not SDVRP.violations(sd, [1, 2, 0, 2, 3, 0])
    assert SDVRP.violations(sd, [1, 2, 0, 3, 0])
    return True


selftest()


class MDCPDP:
    """Multi-depot capacitated pickup and delivery. Nodes: depots 0..D-1, pickups D..D+h-1, deliveries D+h..D+2h-1
    (pickup p pairs with p+h). A depot action while idle sends out the vehicle of that depot; a depot action on tour
    returns the vehicle. Constraints: every customer exactly once; a delivery after its pickup and on the same vehicle;
    number of carried orders <= capacity of that vehicle's depot; a vehicle comes home to its own depot, empty; each
    depot's vehicle is used at most once."""

    name = "mdcpdp"

    @staticmethod
    def extract(td_in, td0, b, env):
        cap = [int(x) for x in td0["capacity"][b].reshape(-1).tolist()]
        D = env.generator.num_depot
        return dict(locs=td0["locs"][b].tolist(), D=D, cap=cap, w=float(td0["lateness_weight"][b].reshape(-1)[0]),
                    reward_mode=env.reward_mode, problem_mode=env.problem_mode, dist_mode=env.dist_mode)

    @staticmethod
    def d(inst, a, b):
        if inst["dist_mode"] == "L1":
            return abs(a[0] - b[0]) + abs(a[1] - b[1])
        return math.hypot(a[0] - b[0], a[1] - b[1])

    @classmethod
    def tours(cls, inst, actions):
        """-> list of (depot, [customers], returned_to or None), structural problems"""
        D = inst["D"]
        tours, probs = [], []
        cur = None
        for a in actions:
            if a < D:
                if cur is not None and cur[1]:
                    cur[2] = a
                    tours.append(tuple(cur))
                    cur = None
                else:
                    if cur is not None and not cur[1]:
                        # idle hop from one depot to another: the previous vehicle never left
                        pass
                    cur = [a, [], None]
            else:
                if cur is None:
                    probs.append(("customer_without_vehicle", "violated", f"customer {a} visited while no vehicle is on tour"))
                    cur = [None, [], None]
                cur[1].append(a)
        if cur is not None and cur[1]:
            tours.append(tuple(cur))
        return tours, probs

    @classmethod
    def violations(cls, inst, actions):
        D, n = inst["D"], len(inst["locs"]) - inst["D"]
        h = n // 2
        tours, out = cls.tours(inst, actions)
        cust = [a for a in actions if a >= D]
        cnt = {}
        for c in cust:
            cnt[c] = cnt.get(c, 0) + 1
        if any(k > 1 for k in cnt.values()):
            out.append(("visit_once", "violated", f"customers visited twice: {[c for c,k in cnt.items() if k>1]}"))
        miss = [c for c in range(D, D + n) if c not in cnt]
        if miss:
            out.append(("visit_all", "violated", f"customers never visited: {miss}"))
        used = {}
        for dep, cs, ret in tours:
            if dep is not None:
                used[dep] = used.get(dep, 0) + 1
            if ret is not None and dep is not None and ret != dep and inst["problem_mode"] == "close":
                out.append(("route_ends_at_own_depot", "violated", f"vehicle of depot {dep} returns to depot {ret}"))
            pos = {c: i for i, c in enumerate(cs)}
            carry = 0
            cap = inst["cap"][dep] if dep is not None and dep < len(inst["cap"]) else inst["cap"][0]
            for c in cs:
                if c < D + h:
                    carry += 1
                    if carry > cap:
                        out.append(("capacity", "violated", f"vehicle of depot {dep} carries {carry} orders > capacity {cap}"))
                        break
                    if c + h not in pos:
                        out.append(("same_vehicle", "violated", f"pickup {c} and delivery {c+h} on different vehicles"))
                else:
                    if c - h in pos and pos[c - h] > pos[c]:
                        out.append(("precedence", "violated", f"delivery {c} before pickup {c-h}"))
                    elif c - h not in pos:
                        out.append(("precedence", "violated", f"delivery {c} on a vehicle that never picked up {c-h}"))
                    carry -= 1
        if any(k > 1 for k in used.values()):
            out.append(("depot_reused", "violated", f"depots sending out more than one vehicle: {[d for d,k in used.items() if k>1]}"))
        return out

    @classmethod
    def objective(cls, inst, actions):
        locs, D = inst["locs"], inst["D"]
        n = len(locs) - D
        h = n // 2
        tours, _ = cls.tours(inst, actions)
        lens, late = {}, 0.0
        for dep, cs, ret in tours:
            dd = dep if dep is not None else 0
            L, cur = 0.0, locs[dd]
            for c in cs:
                L += cls.d(inst, cur, locs[c])
                cur = locs[c]
                if c >= D + h:
                    late += L
            if inst["problem_mode"] == "close":
                L += cls.d(inst, cur, locs[dd])
            lens[dd] = lens.get(dd, 0.0) + L
        vals = list(lens.values()) or [0.0]
        if inst["reward_mode"] == "minmax":
            return -max(vals)
        if inst["reward_mode"] == "minsum":
            return -math.fsum(vals)
        return -((1 - inst["w"]) * math.fsum(vals) + inst["w"] * late)

    @staticmethod
    def step_bound(inst):
        return len(inst["locs"]) - inst["D"] + 2 * inst["D"] + 1


def _selftest_mdcpdp():
    locs = [[0, 0], [4, 0], [1, 0], [5, 0], [2, 0], [6, 0]]  # D=2, pickups 2,3 deliveries 4,5
    inst = dict(locs=locs, D=2, cap=[1, 1], w=0.5, reward_mode="minsum", problem_mode="close", dist_mode="L2")
    assert not MDCPDP.violations(inst, [0, 2, 4, 0, 1, 3, 5, 1])
    assert abs(MDCPDP.objective(inst, [0, 2, 4, 0, 1, 3, 5]) + (4 + 4)) < 1e-12
    assert any(v[0] == "route_ends_at_own_depot" for v in MDCPDP.violations(inst, [0, 2, 4, 0, 1, 3, 5, 0]))
    assert any(v[0] == "capacity" for v in MDCPDP.violations(inst, [0, 2, 3, 4, 5]))
    assert any(v[0] == "precedence" for v in MDCPDP.violations(inst, [0, 4, 2, 0, 1, 3, 5]))
    inst["reward_mode"] = "minmax"
    assert abs(MDCPDP.objective(inst, [0, 2, 4, 0, 1, 3, 5]) + 4) < 1e-12
    inst["reward_mode"] = "lateness"
    assert abs(MDCPDP.objective(inst, [0, 2, 4, 0, 1, 3, 5]) + (0.5 * 8 + 0.5 * (2 + 2))) < 1e-12


_selftest_mdcpdp()
