"""C05 — exhaustive explorer + brute-force candidate enumeration.

Explorer: level-synchronous breadth-first expansion of the REAL env over every True bit of the advertised
mask. Level d holds all mask-admitted action prefixes of length d; to expand it the env is reset on
len(prefixes) copies of the instance and the prefixes are replayed as one batch (no reliance on indexing
TensorDict rows or on env-object state such as FFSP's index tables). Leaves are prefixes after which the
row is done. The explorer is complete for an instance iff it never hit its node budget.

Brute force: candidate solutions are enumerated from the problem definition (permutations x route splits,
subsets x orders, k-subsets, operation orders x machine choices) and classified by the independent oracle.
"""
from __future__ import annotations

import itertools
import math

import torch

from vlib.episode import row_done


class Budget(Exception):
    pass


def explore(env, td_row, max_nodes=200000, max_depth=200, want_reward=True, reward_fn=None, companion=None):
    """returns (leaves: list[(actions tuple, reward float|None)], complete: bool, stats).
    companion: optional one-row instance placed at ROW 0 of every replay batch; it takes its first feasible action at every
    step and is ignored otherwise. What the explored instance can reach must not depend on it (rules read from 'the first
    batch element' instead of per instance only show in such company)."""
    frontier = [()]
    leaves = []
    nodes = 0
    dead_ends = []
    depth = 0
    while frontier:
        if depth > max_depth:
            return leaves, False, dict(nodes=nodes, reason="max_depth", dead_ends=dead_ends)
        F = len(frontier)
        nodes += F
        if nodes > max_nodes:
            return leaves, False, dict(nodes=nodes, reason="budget", dead_ends=dead_ends)
        rows_ = [td_row.clone() for _ in range(F)]
        if companion is not None:
            rows_ = [companion.clone()] + rows_
        td = env.reset(torch.cat(rows_, 0) if len(rows_) > 1 else rows_[0])
        pref = torch.tensor(frontier, dtype=torch.long).reshape(F, depth)
        for t in range(depth):
            a_ = pref[:, t].clone()
            if companion is not None:
                m0 = td["action_mask"][0].reshape(-1)
                a0 = int(torch.nonzero(m0).flatten()[0]) if bool(m0.any()) else 0
                a_ = torch.cat((torch.tensor([a0], dtype=torch.long), a_))
            td.set("action", a_)
            td = env.step(td)["next"]
        if companion is not None:
            td = td[1:]
        done = row_done(td) if "done" in td.keys() else torch.zeros(F, dtype=torch.bool)
        if depth == 0:
            done = torch.zeros(F, dtype=torch.bool)
        mask = td["action_mask"].reshape(F, -1)
        # leaves
        didx = torch.nonzero(done).flatten().tolist()
        if didx:
            rew = [None] * len(didx)
            if want_reward:
                if reward_fn is not None:
                    rew = reward_fn(td, didx, pref)
                else:
                    sub = td[torch.tensor(didx)]
                    r = env.get_reward(sub.clone(), pref[didx].clone())
                    rew = r.reshape(len(didx), -1)[:, 0].tolist()
            for j, i in enumerate(didx):
                leaves.append((frontier[i], rew[j]))
        nxt = []
        for i in torch.nonzero(~done).flatten().tolist():
            acts = torch.nonzero(mask[i]).flatten().tolist()
            if not acts:
                dead_ends.append(frontier[i])
                continue
            for a in acts:
                nxt.append(frontier[i] + (a,))
        frontier = nxt
        depth += 1
    return leaves, True, dict(nodes=nodes, dead_ends=dead_ends)


# ------------------------------------------------------------------------------------------
# canonical forms and candidate enumeration (routing)
def split(acts):
    routes, cur = [], []
    for a in acts:
        if a == 0:
            if cur:
                routes.append(tuple(cur))
            cur = []
        else:
            cur.append(a)
    if cur:
        routes.append(tuple(cur))
    return routes


def canon(name, acts, inst=None):
    acts = list(acts)
    if name == "mdcpdp":
        # non-empty tours as (depot, route); idle depot hops and the order in which the vehicles leave are forgotten
        from vlib.oracles.routing import MDCPDP

        tours, _ = MDCPDP.tours(inst, acts)
        return frozenset((dep, tuple(cs)) for dep, cs, _ in tours if cs)
    if name in ("tsp", "atsp"):
        k = acts.index(0)
        return tuple(acts[k:] + acts[:k])
    if name == "pdp":
        return tuple(a for a in acts if a != 0)
    if name in ("cvrp", "cvrptw", "sdvrp", "mtvrp", "mtsp"):
        return frozenset(split(acts))
    if name == "svrp":
        # (technician index, route) for every non-empty route: a depot visit always sends the next technician
        out, cur, k = [], [], 0
        for a in acts:
            if a == 0:
                if cur:
                    out.append((k, tuple(cur)))
                cur = []
                k += 1
            else:
                cur.append(a)
        if cur:
            out.append((k, tuple(cur)))
        return tuple(out)
    if name in ("op", "pctsp", "spctsp"):
        return tuple(a for a in acts if a != 0)
    raise KeyError(name)


def compositions(seq, max_parts=None):
    """all ways to cut seq into consecutive non-empty parts."""
    n = len(seq)
    for cuts in range(0, n):
        if max_parts is not None and cuts + 1 > max_parts:
            break
        for pos in itertools.combinations(range(1, n), cuts):
            parts, prev = [], 0
            for p in pos + (n,):
                parts.append(tuple(seq[prev:p]))
                prev = p
            yield parts


def candidates(name, inst):
    """yields (canonical, action sequence) over the problem's solution space (feasible or not)."""
    if name in ("tsp", "atsp"):
        n = len(inst["locs"]) if "locs" in inst else len(inst["cost"])
        for p in itertools.permutations(range(1, n)):
            seq = (0,) + p
            yield seq, list(seq)
        return
    if name == "mdcpdp":
        # every order of the customers, cut into at most D consecutive routes, each route given to a distinct depot's vehicle
        D = inst["D"]
        cust = list(range(D, len(inst["locs"])))
        seen = set()
        for p in itertools.permutations(cust):
            for parts in compositions(p, D):
                for deps in itertools.permutations(range(D), len(parts)):
                    c = frozenset(zip(deps, parts))
                    if c in seen:
                        continue
                    seen.add(c)
                    seq = []
                    for dep, r in sorted(zip(deps, parts)):
                        seq += [dep] + list(r) + [dep]
                    yield c, seq
        return
    n = len(inst["locs"]) - 1
    cust = list(range(1, n + 1))
    if name == "pdp":
        for p in itertools.permutations(cust):
            yield tuple(p), ([0] if inst["start_depot"] else []) + list(p)
        return
    if name in ("cvrp", "cvrptw", "sdvrp", "mtvrp", "mtsp", "svrp"):
        maxp = inst.get("num_agents") if name == "mtsp" else (len(inst["techs"]) if name == "svrp" else None)
        seen = set()
        for p in itertools.permutations(cust):
            for parts in compositions(p, maxp):
                c = tuple((k, r) for k, r in enumerate(parts)) if name == "svrp" else frozenset(parts)
                if c in seen:
                    continue
                seen.add(c)
                seq = []
                for r in parts:
                    seq += list(r) + [0]
                if name == "svrp":
                    seq = seq[:-1]  # the library's episodes end at the last customer
                yield c, seq
        return
    if name in ("op", "pctsp", "spctsp"):
        for k in range(0, n + 1):
            for sub in itertools.permutations(cust, k):
                yield tuple(sub), list(sub) + [0]
        return
    raise KeyError(name)


# ------------------------------------------------------------------------------------------
# scheduling brute force: optimal makespan over semi-active schedules
def jobshop_opt(inst):
    """inst from oracles.scheduling.JobShop.extract: proc[m][o] processing times (0 = not eligible), job op ranges.
    Exhaustive DFS over (next job, machine) decisions with semi-active placement; returns the optimal makespan."""
    proc = inst["proc"]
    M = len(proc)
    pad = inst["pad"]
    jobs = []
    for s_, e_ in zip(inst["job_start"], inst["job_end"]):
        ops = [o for o in range(s_, e_ + 1) if o < len(pad) and not pad[o]]
        if ops:
            jobs.append((ops[0], ops[-1]))
    best = [math.inf]
    J = len(jobs)

    def rec(nxt, jready, mready, mk):
        if mk >= best[0]:
            return
        if all(nxt[j] > jobs[j][1] for j in range(J)):
            best[0] = mk
            return
        for j in range(J):
            o = nxt[j]
            if o > jobs[j][1]:
                continue
            for m in range(M):
                p = proc[m][o]
                if p <= 0:
                    continue
                s = max(jready[j], mready[m])
                f = s + p
                nxt[j] += 1
                oj, om = jready[j], mready[m]
                jready[j], mready[m] = f, f
                rec(nxt, jready, mready, max(mk, f))
                nxt[j] -= 1
                jready[j], mready[m] = oj, om

    rec([a for a, _ in jobs], [0.0] * J, [0.0] * M, 0.0)
    return best[0]


def jobshop_semi_active(inst, limit=200000):
    """all semi-active schedules of a (flexible) job shop as a set of tuples ((machine, start) per real op, in op order):
    every (next job, eligible machine) decision sequence with the operation placed at max(job ready, machine ready).
    Returns (set, complete)."""
    proc = inst["proc"]
    M = len(proc)
    pad = inst["pad"]
    jobs = []
    for s_, e_ in zip(inst["job_start"], inst["job_end"]):
        ops = [o for o in range(s_, e_ + 1) if o < len(pad) and not pad[o]]
        if ops:
            jobs.append((ops[0], ops[-1]))
    J = len(jobs)
    real = sorted(o for a, b in jobs for o in range(a, b + 1))
    out = set()
    place = {}
    budget = [limit]

    def rec(nxt, jready, mready):
        if budget[0] <= 0:
            return
        if all(nxt[j] > jobs[j][1] for j in range(J)):
            out.add(tuple(place[o] for o in real))
            budget[0] -= 1
            return
        for j in range(J):
            o = nxt[j]
            if o > jobs[j][1]:
                continue
            for m in range(M):
                p = proc[m][o]
                if p <= 0:
                    continue
                s = max(jready[j], mready[m])
                nxt[j] += 1
                oj, om = jready[j], mready[m]
                jready[j], mready[m] = s + p, s + p
                place[o] = (m, float(s))
                rec(nxt, jready, mready)
                nxt[j] -= 1
                jready[j], mready[m] = oj, om
                del place[o]

    rec([a for a, _ in jobs], [0.0] * J, [0.0] * M)
    return out, budget[0] > 0


def flowshop_opt(inst):
    """inst: dur[job][machine_global]; stages x machines per stage; each job passes the stages in order, on any one
    machine of the stage. Optimal makespan over semi-active schedules."""
    dur, S, K = inst["run"], inst["S"], inst["K"]
    J = len(dur)
    best = [math.inf]

    def rec(stage_of, jready, mready, mk):
        if mk >= best[0]:
            return
        if all(s == S for s in stage_of):
            best[0] = mk
            return
        for j in range(J):
            s = stage_of[j]
            if s == S:
                continue
            for k in range(K):
                m = s * K + k
                st = max(jready[j], mready[m])
                f = st + dur[j][m]
                oj, om = jready[j], mready[m]
                stage_of[j] += 1
                jready[j], mready[m] = f, f
                rec(stage_of, jready, mready, max(mk, f))
                stage_of[j] -= 1
                jready[j], mready[m] = oj, om

    rec([0] * J, [0] * J, [0] * (S * K), 0)
    return best[0]


# ------------------------------------------------------------------------------------------
# SDVRP with split deliveries: all complete visit sequences under the documented rule "always deliver as much as possible"
def sdvrp_histories(inst, max_nodes=300000):
    """inst: SDVRP oracle instance with exactly representable demands (dyadic). Returns (set of complete action sequences, complete?).
    Rules (env docstring): a customer may be visited while it still has demand and the vehicle has free capacity; the visit
    delivers min(remaining demand, free capacity); the depot may be visited from any customer (and not twice in a row while
    some customer can still be served); the episode ends with the delivery that serves the last remaining demand."""
    from fractions import Fraction

    dem = [Fraction(x) for x in inst["demand"][1:]]  # float -> exact rational (index 0 of the oracle's list is the depot)
    cap = Fraction(inst["cap"])
    n = len(dem)
    out, nodes = set(), [0]

    def rec(pos, used, rem, seq):
        nodes[0] += 1
        if nodes[0] > max_nodes:
            raise OverflowError
        if all(r == 0 for r in rem):
            out.add(tuple(seq))
            return
        servable = [j for j in range(n) if rem[j] > 0 and used < cap]
        for j in servable:
            d = min(rem[j], cap - used)
            rem2 = list(rem)
            rem2[j] -= d
            rec(j + 1, used + d, tuple(rem2), seq + [j + 1])
        if not (pos == 0 and servable):
            if pos != 0:
                rec(0, Fraction(0), rem, seq + [0])

    try:
        rec(0, Fraction(0), tuple(dem), [])
    except OverflowError:
        return out, False
    return out, True

