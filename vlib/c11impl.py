"""C11 — returned log-likelihoods are those of the returned actions; evaluate round trip."""
from __future__ import annotations

import contextlib

import torch

from vlib import policies
from vlib.c14impl import pinned_matnet_randomness
from vlib.taps import Float64, PolicyTap, logit_noise, td_to64


def ref_logp(logits, mask, s):
    """float64 statement of the step distribution: tanh clipping, masking, temperature, softmax. Top-k / top-p (laws
    checked independently in C10) are applied with the library's own filter on the float64 masked/tempered logits."""
    from rl4co.utils.decoding import process_logits

    if s.top_k > 0 or s.top_p > 0:
        # nucleus / top-k membership at float ties depends on the float width: the filtered distribution is taken from the
        # library's own process_logits on a clone of the tapped float32 logits (its laws are checked independently in C10);
        # what C11 checks here is that the returned number belongs to the action actually taken at that step and row
        m = None if mask is None else mask.reshape(mask.shape[0], -1).bool()
        return process_logits(logits.clone().reshape(logits.shape[0], -1), m, temperature=s.temperature, top_p=s.top_p, top_k=s.top_k,
                              tanh_clipping=s.tanh_clipping, mask_logits=s.mask_logits).double()
    x = logits.double().reshape(logits.shape[0], -1)
    if s.tanh_clipping > 0:
        x = torch.tanh(x) * s.tanh_clipping
    if s.mask_logits and mask is not None:
        x = x.masked_fill(~mask.reshape(mask.shape[0], -1).bool(), float("-inf"))
    x = x / s.temperature
    return torch.log_softmax(x, -1)


# policies whose round trip was verified to close to ~1e-15 in float64 on the unchanged tree (MDAM returns path-averaged
# quantities, PolyNet binds its K vectors to row positions, PointerNetwork and MatNet build float32 tensors internally: no escalation for them, a mismatch stays a violation)
F64_KINDS = {"am", "am_instnorm", "am_layernorm", "ham", "symnco"}


def roundtrip_float64(pol, env, td0, decode_type, dk, seed, off, replicated, B):
    """The whole round trip (rollout, then evaluation of the returned actions) once more in double precision. Returns the
    largest per-step gap: ~1e-9 when a float32 discrepancy was conditioning (unscaled CVRPTW), O(gap) when it is logic."""
    from rl4co.utils.ops import batchify

    ev_kw = {k: v for k, v in dk.items() if k in ("temperature", "tanh_clipping", "top_k", "top_p")}
    with torch.no_grad(), Float64(pol):
        torch.manual_seed(seed + 1)
        o = pol(td_to64(td0), env, phase="train", decode_type=decode_type, return_actions=True, return_sum_log_likelihood=False, **dk)
        a, ll = o["actions"], o["log_likelihood"]
        R = a.shape[0]
        tde = batchify(td_to64(td0), R // B) if replicated else td_to64(td0)
        ev = pol(tde, env, phase="train", actions=a.clone(), return_sum_log_likelihood=False, **ev_kw)["log_likelihood"]
    if ev.shape != ll.shape:
        return float("inf")
    return float((ev[:, off:] - ll[:, off:]).abs().max()) if ev[:, off:].numel() else 0.0


def case(ctx, case):
    kind, name, n, B, seed = case["policy"], case["env"], case["n"], case["B"], case["s"]
    env, O, cfg = policies.env_for(name, n, **case.get("extra", {}))
    pol = policies.make(kind, env, seed=case.get("wseed", 0))
    if case.get("train_mode"):
        pol.train()
    torch.manual_seed(seed)
    if case.get("inst_n"):  # instances of another size than the env (and the policy's env) was constructed for
        td_in = policies.env_for(name, case["inst_n"], **case.get("extra", {}))[0].generator(batch_size=[B])
        ctx.count("c11_other_size_cases")
    else:
        td_in = env.generator(batch_size=[B])
    td0 = env.reset(td_in.clone())
    dk = dict(case["decode"])
    decode_type = dk.pop("decode_type")
    sig = dict(policy=kind, env=name, decode=decode_type)
    if case.get("warm"):
        # history: the same policy object has just decoded ANOTHER batch of the same shape with the same settings (the previous
        # loader batch): nothing of that call may survive into the observed one
        with torch.no_grad():
            try:
                pol(env.reset(env.generator(batch_size=[B])), env, phase="train", decode_type=decode_type, return_actions=True, **dk)
                ctx.count("c11_warmup_calls")
                sig["history"] = True
            except Exception:
                pass
    multistart = decode_type.startswith("multistart")
    mm = pinned_matnet_randomness(pol) if kind == "matnet" else contextlib.nullcontext()
    with mm, torch.no_grad():
        torch.manual_seed(seed + 1)
        with PolicyTap(pol) as rec:
            try:
                out = pol(td0.clone(), env, phase="train", decode_type=decode_type, return_actions=True, return_entropy=True,
                          return_sum_log_likelihood=False, **dk)
            except Exception as e:
                ctx.evaluation()
                ctx.violation(dict(sig, q="forward_raises", exc=type(e).__name__), f"policy forward raised {type(e).__name__}: {str(e)[:200]}", dict(B=B, n=n, decode=case["decode"]))
                return
        ctx.count("c11_forwards")
        actions, ll_steps, reward, ent = out["actions"], out["log_likelihood"], out["reward"], out["entropy"]
        R, T = actions.shape
        s = rec.strategy
        if s is None or not rec.steps:
            ctx.count("c11_tap_missed")
            return
        noise = logit_noise(rec)  # conditioning-aware slack for comparisons ACROSS forwards (batch layouts differ)
        off = 1 if (multistart and s.num_starts and s.num_starts >= 1) else 0
        if len(rec.steps) != T - off:
            ctx.evaluation()
            ctx.violation(dict(sig, q="step_count"), f"{len(rec.steps)} decoder steps were observed but {T} actions (incl. {off} forced) were returned", dict(B=B))
            return
        # --- per-step audit -----------------------------------------------------------------------
        bad = None
        ent_ref = torch.zeros(R, dtype=torch.float64)
        for t in range(T):
            a = actions[:, t]
            if t < off:
                if bool((ll_steps[:, t] != 0).any()):
                    bad = ("forced_start_nonzero", f"forced multi-start first move contributes {ll_steps[:, t].tolist()[:4]} to the log-likelihood", t)
                    break
                ctx.count("c11_forced_steps", R)
                continue
            st = rec.steps[t - off]
            lp = ref_logp(st["logits"], st["mask"], s)
            mk = st["mask"].reshape(R, -1).bool() if st["mask"] is not None else torch.ones_like(lp, dtype=torch.bool)
            ctx.count("c11_step_rows", R)
            if not bool(mk.gather(1, a[:, None]).all()):
                r = int(torch.nonzero(~mk.gather(1, a[:, None]).squeeze(1))[0])
                bad = ("infeasible_action", f"step {t}: action {int(a[r])} of row {r} is masked", t)
                break
            want = lp.gather(1, a[:, None]).squeeze(1)
            got = ll_steps[:, t].double()
            diff = (want - got).abs()
            if bool((diff > 1e-4).any()) or bool(torch.isnan(got).any()):
                r = int(diff.argmax())
                bad = ("step_logprob", f"step {t} row {r}: returned log-prob {float(got[r]):.6f} for action {int(a[r])}, the masked normalised distribution recomputed from the tapped logits gives {float(want[r]):.6f}", t)
                break
            p = lp.exp()
            ent_ref += -(p * torch.nan_to_num(lp, neginf=0.0)).sum(-1)
            if st.get("done") is not None:
                d = st["done"].reshape(R, -1).all(-1)
                if bool(d.any()):
                    ctx.count("c11_padding_step_rows", int(d.sum()))
                    if bool((got[d].abs() > 1e-5).any()):
                        bad = ("padding_nonzero", f"step {t}: finished rows contribute {got[d].tolist()[:3]} to the log-likelihood", t)
                        break
        ctx.evaluation(R)
        if bad:
            ctx.violation(dict(sig, q=bad[0]), bad[1], dict(B=B, n=n, decode=case["decode"], step=bad[2]))
            return
        if ent is not None and ent.numel() == R:
            if bool(((ent.double() - ent_ref).abs() > 1e-3 * ent_ref.abs().clamp(min=1.0)).any()):
                ctx.violation(dict(sig, q="entropy"), f"returned entropy {ent.tolist()[:3]} != entropy of the recomputed step distributions {ent_ref.tolist()[:3]}", dict(B=B))
                return
            ctx.count("c11_entropy_checked", R)
        # --- sum ----------------------------------------------------------------------------------
        torch.manual_seed(seed + 1)
        out_sum = pol(td0.clone(), env, phase="train", decode_type=decode_type, return_actions=True, **dk)
        if torch.equal(out_sum["actions"], actions):
            ctx.count("c11_sum_checked", R)
            if bool(((out_sum["log_likelihood"].double() - ll_steps.double().sum(1)).abs() > 1e-4 * ll_steps.double().sum(1).abs().clamp(min=1.0)).any()):
                ctx.violation(dict(sig, q="sum"), "summed log-likelihood != sum of the per-step log-probabilities of the same rollout", dict(B=B))
                return
        # --- replicated rollouts: evaluate the returned actions on the replicated instances --------------------
        if (multistart or dk.get("num_samples")) and decode_type != "beam_search" and R % B == 0 and R > B:
            from rl4co.utils.ops import batchify

            ev_kw = {k: v for k, v in dk.items() if k in ("temperature", "tanh_clipping", "top_k", "top_p")}
            try:
                ev = pol(batchify(td0.clone(), R // B), env, phase="train", actions=actions.clone(), return_sum_log_likelihood=False, **ev_kw)
            except Exception as e:
                ctx.violation(dict(sig, q="evaluate_raises", exc=type(e).__name__), f"evaluating replicated rollouts raised {type(e).__name__}: {str(e)[:200]}", dict(B=B))
                return
            ctx.count("c11_roundtrips_replicated", R)
            d = (ev["log_likelihood"][:, off:].double() - ll_steps[:, off:].double()).abs()
            if bool((d > 1e-4 + noise).any()) and kind in F64_KINDS:
                g64 = roundtrip_float64(pol, env, td0, decode_type, dk, seed, off, True, B)
                ctx.count("c11_float64_escalations")
                if g64 < 1e-7:
                    ctx.ambiguous += 1
                    ctx.count("c11_float32_conditioning_cases")
                    d = d * 0
            if bool((d > 1e-4 + noise).any()):
                r = int(d.max(1).values.argmax())
                ctx.violation(dict(sig, q="roundtrip_logprob", replicated=True), f"row {r} (instance {r % B}): per-step log-probs of a replicated rollout differ by up to {float(d.max()):.4g} from those the policy assigns when the same actions are evaluated on that instance",
                              dict(B=B, n=n, decode=case["decode"]))
                return
            if bool(((ev["reward"] - reward).abs() > 1e-5 * reward.abs().clamp(min=1.0)).any()):
                ctx.violation(dict(sig, q="roundtrip_reward", replicated=True), "evaluate(actions) reward differs from the replicated rollout's", dict(B=B))
                return
        # --- evaluate round trip (same batch, same mode) ------------------------------------------------
        if not multistart and not dk.get("num_samples") and decode_type != "beam_search":
            ev_kw = {k: v for k, v in dk.items() if k in ("temperature", "tanh_clipping", "top_k", "top_p")}
            try:
                ev = pol(td0.clone(), env, phase="train", actions=actions.clone(), return_entropy=True, return_sum_log_likelihood=False, **ev_kw)
            except Exception as e:
                ctx.violation(dict(sig, q="evaluate_raises", exc=type(e).__name__), f"evaluating the returned actions raised {type(e).__name__}: {str(e)[:200]}", dict(B=B))
                return
            ctx.count("c11_roundtrips", R)
            d = (ev["log_likelihood"].double() - ll_steps.double()).abs()
            if ev["log_likelihood"].shape == ll_steps.shape and bool((d > 1e-4 + noise).any()) and kind in F64_KINDS:
                g64 = roundtrip_float64(pol, env, td0, decode_type, dk, seed, 0, False, B)
                ctx.count("c11_float64_escalations")
                if g64 < 1e-7:
                    ctx.ambiguous += 1
                    ctx.count("c11_float32_conditioning_cases")
                    d = d * 0
            if ev["log_likelihood"].shape != ll_steps.shape or bool((d > 1e-4 + noise).any()):
                ctx.violation(dict(sig, q="roundtrip_logprob"), f"evaluate(actions) per-step log-probs differ from the rollout's by up to {float(d.max()) if d.numel() else 'shape'}", dict(B=B, n=n, decode=case["decode"]))
                return
            if bool(((ev["reward"] - reward).abs() > 1e-5 * reward.abs().clamp(min=1.0)).any()):
                ctx.violation(dict(sig, q="roundtrip_reward"), "evaluate(actions) reward differs from the rollout's", dict(B=B))
                return
            if ent is not None and bool(((ev["entropy"] - ent).abs() > 1e-3 * ent.abs().clamp(min=1.0)).any()):
                ctx.violation(dict(sig, q="roundtrip_entropy"), "evaluate(actions) entropy differs from the rollout's", dict(B=B))
                return
            # --- mini-batch round trip: PPO evaluates the stored actions on shuffled MINI-BATCHES of the rollout batch; whenever the
            # network is a per-instance function (eval mode, or train mode without batch normalisation) the log-probs of a row must
            # not depend on which other rows it is evaluated with
            if B >= 2 and (not case.get("train_mode") or kind in ("am_instnorm", "am_layernorm")) and kind not in ("mdam", "polynet", "matnet"):
                gsub = torch.Generator().manual_seed(seed + 5)
                idx = torch.randperm(B, generator=gsub)[: max(1, B // 2)]
                try:
                    evs = pol(td0[idx].clone(), env, phase="train", actions=actions[idx].clone(), return_sum_log_likelihood=False, **ev_kw)["log_likelihood"]
                except Exception as e:
                    ctx.violation(dict(sig, q="evaluate_raises", exc=type(e).__name__, minibatch=True), f"evaluating a mini-batch of the returned actions raised {type(e).__name__}: {str(e)[:200]}", dict(B=B, idx=idx.tolist()))
                    return
                ctx.count("c11_minibatch_roundtrips", int(idx.numel()))
                L = min(evs.shape[1], ll_steps.shape[1])
                dm = (evs[:, :L].double() - ll_steps[idx][:, :L].double()).abs()
                rest = ll_steps[idx][:, L:].abs()
                if bool((dm > 1e-4 + noise).any()) and kind in F64_KINDS:
                    # decide in double precision: the same rollout, then full-batch vs mini-batch evaluation
                    from vlib.taps import Float64 as _F64, td_to64 as _t64

                    with _F64(pol):
                        torch.manual_seed(seed + 1)
                        o64 = pol(_t64(td0), env, phase="train", decode_type=decode_type, return_actions=True, return_sum_log_likelihood=False, **dk)
                        e64 = pol(_t64(td0)[idx], env, phase="train", actions=o64["actions"][idx].clone(), return_sum_log_likelihood=False, **ev_kw)["log_likelihood"]
                        L64 = min(e64.shape[1], o64["log_likelihood"].shape[1])
                        g64 = float((e64[:, :L64] - o64["log_likelihood"][idx][:, :L64]).abs().max())
                    ctx.count("c11_float64_escalations")
                    if g64 < 1e-7:
                        ctx.ambiguous += 1
                        ctx.count("c11_float32_conditioning_cases")
                        dm = dm * 0
                if bool((dm > 1e-4 + noise).any()) and (dk.get("top_k") or dk.get("top_p")):
                    # under a top-k / nucleus filter a float-level difference of the raw scores (1e-8 between batch layouts) can move
                    # an exactly tied score across the cut: compare the RAW decoder scores of the two evaluations instead - if they
                    # agree to float noise the network is per-instance and the difference is a tie at the filter boundary
                    with PolicyTap(pol) as rec2:
                        pol(td0[idx].clone(), env, phase="train", actions=actions[idx].clone(), return_sum_log_likelihood=False, **ev_kw)
                    worst = 0.0
                    for t in range(min(len(rec2.steps), len(rec.steps))):
                        a_, b_ = rec2.steps[t]["logits"].reshape(idx.numel(), -1), rec.steps[t]["logits"].reshape(R, -1)[idx]
                        mk_ = rec.steps[t]["mask"]
                        if mk_ is not None:
                            mk_ = mk_.reshape(R, -1)[idx].bool()
                            a_, b_ = a_.masked_fill(~mk_, 0.0), b_.masked_fill(~mk_, 0.0)
                        worst = max(worst, float((a_ - b_).abs().max()))
                    if rec2.steps and worst <= 1e-5 + noise:
                        ctx.ambiguous += 1
                        ctx.count("c11_filter_boundary_ties")
                        dm = dm * 0
                if bool((dm > 1e-4 + noise).any()) or (rest.numel() and bool((rest > 1e-5).any())):
                    ctx.violation(dict(sig, q="roundtrip_logprob", minibatch=True), f"evaluating rows {idx.tolist()} of the rollout batch as a mini-batch gives per-step log-probs differing by up to {float(dm.max()):.4g} from the rollout's (the PPO ratio of those rows does not start at one)",
                                  dict(B=B, n=n, decode=case["decode"], idx=idx.tolist()))
                    return
    ctx.nontrivial_case(dict(c=case, a=actions.tolist()))
    ctx.sample(dict(case=case, ll_row0=ll_steps[0].tolist()[:6]))



def stepwise_case(ctx, case):
    """L2DPolicy4PPO (step-wise PPO on FJSP/JSSP): act() stores the log-prob of the sampled action; evaluate() on the same
    state and action must reproduce it (PPO ratio of the un-updated policy = 1), equal the clipped, masked, normalised
    distribution recomputed from the actor's logits, and report that distribution's entropy."""
    from rl4co.models.zoo.l2d.policy import L2DPolicy4PPO

    name, B, seed = case["env"], case["B"], case["s"]
    env, O, cfg = policies.env_for(name, 6, **case.get("extra", {}))
    torch.manual_seed(case.get("wseed", 0))
    pol = L2DPolicy4PPO(env_name=env.name, embed_dim=32, num_encoder_layers=1, tanh_clipping=case.get("clip", 10))
    pol.eval()
    torch.manual_seed(seed)
    td = env.reset(env.generator(batch_size=[B]))
    sig = dict(policy="l2d_ppo", env=name, decode="stepwise_act_evaluate")
    steps = 0
    with torch.no_grad():
        while not td["done"].all() and steps < case.get("max_steps", 40):
            td = pol.act(td, env, phase="train")
            a, lp_act = td["action"].clone(), td["logprobs"].clone()
            tde = td.clone()
            lp_ev, _, ent = pol.evaluate(tde)
            # independent reference from the actor's own logits
            logits, mask = pol.decoder(td.clone(), hidden=None, num_starts=0)
            x = torch.tanh(logits.double()) * pol.tanh_clipping if pol.tanh_clipping > 0 else logits.double()
            ref = torch.log_softmax(x.masked_fill(~mask, float("-inf")), -1)
            want = ref.gather(1, a[:, None]).squeeze(1)
            ent_ref = -(ref.exp() * torch.nan_to_num(ref, neginf=0.0)).sum(-1)
            ctx.evaluation(B)
            ctx.count("c11_stepwise_rows", B)
            if bool(((lp_ev.double() - lp_act.double()).abs() > 1e-4).any()):
                ctx.violation(dict(sig, q="roundtrip_logprob"), f"step {steps}: evaluate() gives log-prob {lp_ev.tolist()[:3]} for the action act() sampled with log-prob {lp_act.tolist()[:3]} (PPO ratio of the un-updated policy != 1)", dict(B=B))
                return
            if bool(((lp_act.double() - want).abs() > 1e-4).any()):
                ctx.violation(dict(sig, q="step_logprob"), f"step {steps}: act() stored {lp_act.tolist()[:3]}, the clipped masked normalised distribution gives {want.tolist()[:3]}", dict(B=B))
                return
            if bool(((ent.double() - ent_ref).abs() > 1e-3 * ent_ref.abs().clamp(min=1.0)).any()):
                ctx.violation(dict(sig, q="entropy"), f"step {steps}: evaluate() entropy {ent.tolist()[:3]} != entropy of the step distribution {ent_ref.tolist()[:3]}", dict(B=B))
                return
            td = env.step(td)["next"]
            steps += 1
    ctx.nontrivial_case(dict(c=case))



def flagged_case(ctx, case):
    """'steps flagged as irrelevant contribute zero': (a) the real get_log_likelihood on random inputs in both return modes
    and both input ranks; (b) a real policy forward on an env whose get_reward flags the second half of the steps through
    td['mask'] (the documented channel), rolled out and re-evaluated in per-step and summed mode."""
    from rl4co.utils.decoding import get_log_likelihood

    seed, B, T, N = case["s"], case["B"], case["T"], case["N"]
    g = torch.Generator().manual_seed(seed)
    sig = dict(policy="-", env="-", decode="flagged_steps")
    lp3 = torch.log_softmax(torch.randn(B, T, N, generator=g), -1)
    acts = torch.randint(0, N, (B, T), generator=g)
    mask = torch.rand(B, T, generator=g) > 0.4
    want_steps = lp3.gather(-1, acts[..., None]).squeeze(-1) * mask
    for rank3 in (True, False):
        for ret_sum in (True, False):
            inp = lp3.clone() if rank3 else lp3.gather(-1, acts[..., None]).squeeze(-1).clone()
            got = get_log_likelihood(inp, acts.clone() if rank3 else None, mask.clone(), ret_sum)
            ctx.evaluation()
            ctx.count("c11_flagged_function_calls")
            want = want_steps.sum(1) if ret_sum else want_steps
            if got.shape != want.shape or not torch.allclose(got, want, atol=1e-6):
                ctx.violation(dict(sig, q="flagged_steps_nonzero", where="get_log_likelihood", return_sum=ret_sum), f"get_log_likelihood(return_sum={ret_sum}, 3-D input={rank3}): flagged steps do not contribute zero", dict(B=B, T=T))
                return
    # (b) through a policy
    env, O, cfg = policies.env_for("tsp", case.get("n", 8))
    pol = policies.make("am", env, seed=seed % 5)
    torch.manual_seed(seed)
    td0 = env.reset(env.generator(batch_size=[B]))
    o_reward = env.get_reward

    def get_reward(td, actions):
        m = torch.ones_like(actions, dtype=torch.bool)
        m[:, actions.shape[1] // 2 :] = False  # only the first half of the tour matters for this (toy) objective
        td.set("mask", m)
        return o_reward(td, actions)

    env.get_reward = get_reward
    try:
        with torch.no_grad():
            torch.manual_seed(seed + 1)
            out_s = pol(td0.clone(), env, phase="train", decode_type="sampling", return_actions=True)
            ev_steps = pol(td0.clone(), env, phase="train", actions=out_s["actions"].clone(), return_sum_log_likelihood=False)
            ev_sum = pol(td0.clone(), env, phase="train", actions=out_s["actions"].clone())
    finally:
        env.get_reward = o_reward
    ctx.evaluation(B)
    ctx.count("c11_flagged_policy_rows", B)
    half = out_s["actions"].shape[1] // 2
    if bool((ev_steps["log_likelihood"][:, half:] != 0).any()):
        ctx.violation(dict(sig, q="flagged_steps_nonzero", where="policy_per_step"), "re-evaluated per-step log-probs of flagged steps are not zero", dict(B=B))
        return
    a, b_, c = out_s["log_likelihood"], ev_steps["log_likelihood"].sum(1), ev_sum["log_likelihood"]
    if not (torch.allclose(a, b_, atol=1e-4) and torch.allclose(a, c, atol=1e-4)):
        ctx.violation(dict(sig, q="flagged_roundtrip"), f"with flagged steps, roll-out ll {a.tolist()[:2]} vs re-evaluated per-step sum {b_.tolist()[:2]} vs re-evaluated sum {c.tolist()[:2]}", dict(B=B))
        return
    ctx.nontrivial_case(dict(c=case))


def select_best_case(ctx, case):
    """Best-of-k decoding (multi-sample / multi-start with select_best=True): the reward, per-step log-probs and actions handed
    back for each instance must belong together - evaluating the returned actions on the instance reproduces the returned
    reward and log-probs (envs whose reward is read from the final state show a state / action mix-up here)."""
    kind, name, n, B, seed, k = case["policy"], case["env"], case["n"], case["B"], case["s"], case["k"]
    env, O, cfg = policies.env_for(name, n, **case.get("extra", {}))
    pol = policies.make(kind, env, seed=case.get("wseed", 0))
    torch.manual_seed(seed)
    td0 = env.reset(env.generator(batch_size=[B]))
    dk = dict(num_starts=k) if case["decode"].startswith("multistart") else dict(num_samples=k)
    sig = dict(policy=kind, env=name, decode=case["decode"], select_best=True)
    with torch.no_grad():
        torch.manual_seed(seed + 1)
        try:
            out = pol(td0.clone(), env, phase="train", decode_type=case["decode"], select_best=True, return_actions=True, return_sum_log_likelihood=False, **dk)
            ev = pol(td0.clone(), env, phase="train", actions=out["actions"].clone(), return_sum_log_likelihood=False)
        except Exception as e:
            ctx.evaluation()
            ctx.violation(dict(sig, q="forward_raises", exc=type(e).__name__), f"best-of-{k} decode / evaluation raised {type(e).__name__}: {str(e)[:200]}", dict(B=B, n=n))
            return
    ctx.count("c11_select_best_roundtrips", B)
    ctx.evaluation(B)
    if out["actions"].shape[0] != B or out["reward"].shape[0] != B:
        ctx.violation(dict(sig, q="rows"), f"select_best returned {out['actions'].shape[0]} action rows / {out['reward'].shape[0]} rewards for {B} instances", None)
        return
    r0, r1 = out["reward"].reshape(B, -1)[:, 0], ev["reward"].reshape(B, -1)[:, 0]
    if bool(((r0 - r1).abs() > 1e-5 * r1.abs().clamp(min=1.0)).any()):
        b = int((r0 - r1).abs().argmax())
        ctx.violation(dict(sig, q="roundtrip_reward"), f"instance {b}: best-of-{k} reports reward {float(r0[b])}, the actions it returns are worth {float(r1[b])} when evaluated on that instance", dict(B=B, n=n, k=k))
        return
    l0, l1 = out["log_likelihood"], ev["log_likelihood"]
    off = 1 if case["decode"].startswith("multistart") else 0
    L = min(l0.shape[1], l1.shape[1])
    if l0.dim() == 2 and L > off and bool(((l0[:, off:L] - l1[:, off:L]).abs() > 1e-3).any()):
        ctx.violation(dict(sig, q="roundtrip_logprob"), f"best-of-{k}: returned per-step log-probs differ from those of the returned actions by up to {float((l0[:, off:L] - l1[:, off:L]).abs().max()):.4g}", dict(B=B, n=n, k=k))
        return
    ctx.nontrivial_case(dict(c=case, a=out["actions"].tolist()))


def ffsp_multistage_case(ctx, case):
    """MatNet's multi-stage FFSP policy (own decode loop, one decoder per stage, all queried at every step): the returned
    log-likelihood must be the sum, over steps, of the log-prob the decoder OF THE DECIDING STAGE gave to the job that was taken."""
    from vlib.c14impl import pinned_matnet_randomness

    env, O, cfg = policies.env_for("ffsp", 0, **case["extra"])
    pol = policies.make("matnet_ffsp", env, seed=case.get("wseed", 0))
    pol.test_decode_type = case.get("decode", "sampling")
    torch.manual_seed(case["s"])
    B = case["B"]
    td0 = env.reset(env.generator(batch_size=[B]))
    S_ = len(pol.decoders)
    per_stage = [[] for _ in range(S_)]
    origs = [d.forward for d in pol.decoders]

    def mk(i):
        def fwd(*a, **kw):
            act, lp = origs[i](*a, **kw)
            per_stage[i].append((act.clone(), lp.clone()))
            return act, lp
        return fwd

    for i, d in enumerate(pol.decoders):
        d.forward = mk(i)
    steps = []
    o_step = env.step

    def step(td):
        steps.append((td["stage_idx"].clone(), td["action"].clone()))
        return o_step(td)

    env.step = step
    sig = dict(policy="matnet_ffsp", env="ffsp", decode=pol.test_decode_type)
    try:
        with torch.no_grad(), pinned_matnet_randomness(pol):
            torch.manual_seed(case["s"] + 1)
            out = pol(td0.clone(), env, phase="test", num_starts=1, return_actions=True)
    except Exception as e:
        ctx.evaluation()
        ctx.violation(dict(sig, q="forward_raises", exc=type(e).__name__), f"multi-stage FFSP policy raised {type(e).__name__}: {str(e)[:200]}", None)
        return
    finally:
        env.step = o_step
        for d, f in zip(pol.decoders, origs):
            d.forward = f
    ctx.count("c11_ffsp_multistage_decodes")
    T = len(steps)
    if any(len(ps) != T for ps in per_stage):
        ctx.count("c11_tap_missed")
        return
    want = torch.zeros(B, dtype=torch.float64)
    changes = 0
    for t, (stage, act) in enumerate(steps):
        for b in range(B):
            a_dec, lp_dec = per_stage[int(stage[b])][t]
            if int(a_dec[b]) != int(act[b]):
                ctx.evaluation()
                ctx.violation(dict(sig, q="action_stage_pairing"), f"step {t}, instance {b}: the executed job {int(act[b])} is not the one chosen by the decoder of the deciding stage {int(stage[b])} ({int(a_dec[b])})", None)
                return
            want[b] += float(lp_dec[b])
        if t > 0:
            changes += int((stage != steps[t - 1][0]).sum())
    ctx.count("c11_ffsp_stage_changes", changes)
    ctx.evaluation(B)
    ctx.count("c11_step_rows", B * T)
    got = out["log_likelihood"].double().reshape(B)
    if bool(((got - want).abs() > 1e-4 * want.abs().clamp(min=1.0)).any()):
        b = int((got - want).abs().argmax())
        ctx.violation(dict(sig, q="loglik_stage_pairing"), f"instance {b}: returned log-likelihood {float(got[b]):.5f} != sum of the deciding stages' log-probs of the executed jobs {float(want[b]):.5f}", dict(B=B, T=T))
        return
    ctx.nontrivial_case(dict(c=case, a=out["actions"].tolist()))


def _steps_match(ctx, sig, what, ll, ll_ev, tol, witness):
    """per-step comparison of returned vs re-evaluated log-probs ([R, T] each); -inf / nan anywhere in the returned ones is a
    violation by itself (an action the policy gave probability zero was 'taken')"""
    if ll.shape != ll_ev.shape:
        ctx.violation(dict(sig, q=what + "_shape"), f"returned per-step log-probs {tuple(ll.shape)} vs evaluation {tuple(ll_ev.shape)}", witness)
        return False
    if not bool(torch.isfinite(ll).all()):
        ctx.violation(dict(sig, q=what + "_nonfinite"), "returned per-step log-probs contain non-finite values", witness)
        return False
    d = (ll.double() - ll_ev.double()).abs()
    if bool((d > tol).any()):
        r, t = [int(x) for x in (d == d.max()).nonzero()[0]]
        ctx.violation(dict(sig, q=what), f"row {r}, step {t}: returned log-prob {float(ll[r, t]):.6f} but the policy assigns {float(ll_ev[r, t]):.6f} to the returned action (max diff {float(d.max()):.3g})", witness)
        return False
    return True


def beam_case(ctx, case):
    """decode_type='beam_search': the returned per-step log-probs (and their sum, and the entropy) must be those the policy
    assigns to the returned sequences - evaluate(actions) on the replicated instances reproduces them."""
    from rl4co.utils.ops import batchify

    kind, name, n, B, W, seed = case["policy"], case["env"], case["n"], case["B"], case["W"], case["s"]
    env, O, cfg = policies.env_for(name, n, **case.get("extra", {}))
    pol = policies.make(kind, env, seed=case.get("wseed", 0))
    torch.manual_seed(seed)
    td0 = env.reset(env.generator(batch_size=[B]))
    sb = case["select_best"]
    sig = dict(policy=kind, env=name, decode="beam_search", select_best=sb)
    wit = dict(B=B, n=n, W=W)
    with torch.no_grad():
        try:
            out = pol(td0.clone(), env, phase="test", decode_type="beam_search", beam_width=W, select_best=sb, return_actions=True, return_entropy=True, return_sum_log_likelihood=False)
            out_sum = pol(td0.clone(), env, phase="test", decode_type="beam_search", beam_width=W, select_best=sb, return_actions=True, return_sum_log_likelihood=True)
        except Exception as e:
            ctx.evaluation()
            ctx.violation(dict(sig, q="forward_raises", exc=type(e).__name__), f"beam-search forward raised {type(e).__name__}: {str(e)[:200]}", wit)
            return
        ctx.count("c11_forwards")
        ctx.count("c11_beam_forwards")
        actions, ll = out["actions"], out["log_likelihood"]
        td_rep = td0.clone() if sb else batchify(td0.clone(), W)
        ev = pol(td_rep, env, phase="test", actions=actions, return_entropy=True, return_sum_log_likelihood=False)
    ll_ev = ev["log_likelihood"]
    mx = 50.0
    tol = 1e-4 + 8 * 1.2e-7 * mx
    T0 = 1  # the forced first move contributes zero in both
    ctx.evaluation(actions.shape[0])
    ctx.count("c11_rows_checked", actions.shape[0])
    if bool((ll[:, 0] != 0).any()):
        ctx.violation(dict(sig, q="forced_start_nonzero"), "the forced first move of a beam contributes a non-zero log-prob", wit)
        return
    # the evaluation stops when every row is done; the best beam of a batch may carry trailing padding steps beyond that
    Tc = min(ll.shape[1], ll_ev.shape[1])
    if bool((ll[:, Tc:] != 0).any()) or bool((ll_ev[:, Tc:] != 0).any()):
        ctx.violation(dict(sig, q="padding_steps_nonzero"), "steps after the end of the episode contribute a non-zero log-prob", wit)
        return
    if not _steps_match(ctx, sig, "beam_steps_vs_evaluate", ll[:, T0:Tc], ll_ev[:, T0:Tc], tol, wit):
        return
    ctx.count("c11_roundtrips")
    if not torch.allclose(out["reward"], ev["reward"], atol=1e-5, rtol=1e-5):
        ctx.violation(dict(sig, q="reward_roundtrip"), "evaluate(actions) gives another reward than the beam-search call", wit)
        return
    if torch.equal(out_sum["actions"], actions):
        s1, s2 = out_sum["log_likelihood"].double(), ll.double().sum(-1)
        if s1.shape != s2.shape or bool(((s1 - s2).abs() > 1e-4 * (1 + s2.abs())).any()):
            ctx.violation(dict(sig, q="sum_vs_steps"), f"summed log-likelihood {s1.flatten()[:4].tolist()} != sum of the per-step values {s2.flatten()[:4].tolist()}", wit)
            return
        ctx.count("c11_sum_checks")
    # entropy: evaluation also counts the distribution of the first step, which beam search forces (and does not record);
    # the two differ by exactly that step's entropy, recomputed here from the evaluation's first-step distribution is not
    # available at this boundary, so only the inequality is checked: forcing a step can only remove entropy
    e1, e2 = out.get("entropy"), ev.get("entropy")
    if e1 is not None and e2 is not None and e1.shape == e2.shape:
        if bool((e1.double() > e2.double() + 1e-3 * (1 + e2.double().abs())).any()):
            ctx.violation(dict(sig, q="entropy_roundtrip"), f"entropy {e1.flatten()[:4].tolist()} from beam search exceeds {e2.flatten()[:4].tolist()} from evaluating the same sequences (which also counts the forced first step)", wit)
            return
        ctx.count("c11_entropy_checks")
    for r in range(actions.shape[0]):
        ctx.nontrivial_case(dict(a=actions[r].tolist(), e=name, s=seed, W=W))


def eas_case(ctx, case):
    """EAS rollouts (rl4co.models.zoo.eas.decoder.forward_eas on the AM decoder, called as EAS.training_step does): every
    instance gets num_starts sampled rollouts plus, from the second iteration on, one rollout forced along the incumbent.
    For EVERY returned row the per-step log-probs must be those of the returned (sampled or forced) actions."""
    from rl4co.models.zoo.eas.decoder import forward_eas
    from rl4co.utils.decoding import get_log_likelihood
    from rl4co.utils.ops import batchify, unbatchify

    name, n, B, seed, it = case["env"], case["n"], case["B"], case["s"], case["iter"]
    env, O, cfg = policies.env_for(name, n)
    pol = policies.make("am", env, seed=case.get("wseed", 0))
    dec = pol.decoder
    for attr in ("temperature", "tanh_clipping", "mask_logits"):
        setattr(dec, attr, getattr(pol, attr))
    torch.manual_seed(seed)
    td0 = env.reset(env.generator(batch_size=[B]))
    sig = dict(policy="am", env=name, decode="eas_rollout", incumbent=bool(it))
    wit = dict(B=B, n=n, iter=it)
    with torch.no_grad():
        ns = env.get_num_starts(td0)
        group = ns + 1
        # incumbent: a feasible solution of each instance (a greedy rollout), stored in EAS's 2 x problem-size buffer
        inc = pol(td0.clone(), env, phase="test", decode_type="multistart_sampling", num_starts=ns, select_best=True, return_actions=True)["actions"]
        L = max(2 * n, inc.shape[1] + 1)
        best = torch.zeros(B, L, dtype=torch.long)
        best[:, : inc.shape[1]] = inc
        try:
            emb, _ = pol.encoder(td0)
            cached = dec._precompute_cache(emb)
            logprobs, actions, td_out, reward = forward_eas(dec, td0.clone(), cached_embeds=cached, best_solutions=best, iter_count=it, env=env, decode_type="multistart_sampling", num_starts=ns)
            ll = get_log_likelihood(logprobs, actions, td_out.get("mask", None), return_sum=False)
        except Exception as e:
            ctx.evaluation()
            ctx.violation(dict(sig, q="forward_raises", exc=type(e).__name__), f"forward_eas raised {type(e).__name__}: {str(e)[:200]}", wit)
            return
        ctx.count("c11_forwards")
        ctx.count("c11_eas_rollouts")
        ev = pol(batchify(td0.clone(), group), env, phase="test", actions=actions, return_sum_log_likelihood=False)
    ll_ev = ev["log_likelihood"]
    ctx.evaluation(actions.shape[0])
    ctx.count("c11_rows_checked", actions.shape[0])
    a3 = unbatchify(actions, group)
    if it > 0:
        T = inc.shape[1]
        if a3.shape[-1] < T or not torch.equal(a3[:, -1, :T], inc):
            # the forced rollout is documented to follow the incumbent; if it does not, only the log-prob law below applies
            ctx.count("c11_eas_incumbent_not_followed")
        else:
            ctx.count("c11_eas_incumbent_rows", B)
    if bool((ll[:, 0] != 0).any()):
        ctx.violation(dict(sig, q="forced_start_nonzero"), "the forced first move contributes a non-zero log-prob", wit)
        return
    T = min(ll.shape[1], ll_ev.shape[1])
    if not _steps_match(ctx, sig, "eas_steps_vs_evaluate", ll[:, 1:T], ll_ev[:, 1:T], 2e-4, wit):
        return
    ctx.count("c11_roundtrips")
    if not torch.allclose(reward, ev["reward"], atol=1e-5, rtol=1e-5):
        ctx.violation(dict(sig, q="reward_roundtrip"), "evaluate(actions) gives another reward than the EAS rollout", wit)
        return
    for r in range(actions.shape[0]):
        ctx.nontrivial_case(dict(a=actions[r].tolist(), e=name, s=seed, eas=it))


def deepaco_case(ctx, case):
    """DeepACOPolicy in its training phase (multi-start sampling with n_ants starts, outputs regrouped per instance):
    log_likelihood[b, a] must be the log-likelihood of the action sequence returned for ant a of instance b (row a*B + b of
    the start-major rollout), i.e. what evaluating that sequence on that instance gives (forced first move: zero)."""
    from rl4co.models.common.constructive.nonautoregressive import NonAutoregressivePolicy
    from rl4co.utils.ops import batchify

    name, n, B, K, seed = case["env"], case["n"], case["B"], case["ants"], case["s"]
    env, O, cfg = policies.env_for(name, n)
    pol = policies.make("deepaco", env, seed=case.get("wseed", 0), n_ants=K)
    pol.train()
    torch.manual_seed(seed)
    td0 = env.reset(env.generator(batch_size=[B]))
    sig = dict(policy="deepaco", env=name, decode="train_multistart_sampling")
    wit = dict(B=B, n=n, ants=K)
    with torch.no_grad():
        try:
            out = pol(td0.clone(), env, phase="train", return_actions=True)
        except Exception as e:
            ctx.evaluation()
            ctx.violation(dict(sig, q="forward_raises", exc=type(e).__name__), f"DeepACO train-phase forward raised {type(e).__name__}: {str(e)[:200]}", wit)
            return
        ctx.count("c11_forwards")
        ctx.count("c11_deepaco_forwards")
        actions, ll, rew = out["actions"], out["log_likelihood"], out["reward"]
        if actions.shape[0] != B * K or tuple(ll.shape[:2]) != (B, K):
            ctx.evaluation()
            ctx.violation(dict(sig, q="shapes"), f"actions {tuple(actions.shape)}, log_likelihood {tuple(ll.shape)} for B={B}, n_ants={K}", wit)
            return
        ev = NonAutoregressivePolicy.forward(pol, batchify(td0.clone(), K), env, phase="train", actions=actions, return_actions=True, return_sum_log_likelihood=False)
    ll_ev = ev["log_likelihood"][:, 1:].double().sum(-1)  # the first move is forced by the start rule: contributes zero
    ctx.evaluation(B * K)
    ctx.count("c11_rows_checked", B * K)
    for b in range(B):
        for a in range(K):
            got, want = float(ll[b, a].double().sum()), float(ll_ev[a * B + b])
            if abs(got - want) > 1e-4 * (1 + abs(want)):
                ctx.violation(dict(sig, q="ll_vs_evaluate"), f"log_likelihood[{b}, {a}] = {got:.5f}, but the sequence returned for ant {a} of instance {b} has log-likelihood {want:.5f} under the policy", wit)
                return
    if not torch.allclose(rew.reshape(-1), ev["reward"].reshape(-1), atol=1e-5, rtol=1e-5):
        ctx.violation(dict(sig, q="reward_roundtrip"), "evaluate(actions) gives another reward than the train-phase call", wit)
        return
    adv = out.get("advantage")
    if adv is not None:
        R = rew.reshape(K, B).t().double()
        if tuple(adv.shape) != (B, K) or bool(((adv.double() - (R - R.mean(1, keepdim=True))).abs() > 1e-4).any()):
            ctx.violation(dict(sig, q="advantage_layout"), "advantage[b, a] is not reward(ant a of instance b) minus the instance's mean over its ants", wit)
            return
    ctx.count("c11_roundtrips")
    for r in range(actions.shape[0]):
        ctx.nontrivial_case(dict(a=actions[r].tolist(), e=name, s=seed, K=K))
