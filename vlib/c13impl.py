"""C13 — beam search: feasible, correctly scored, distinct beams; per-step top-k audit; best selection."""
from __future__ import annotations

import torch

from vlib import policies
from vlib.c12impl import strip
from vlib.taps import Float64, PolicyTap, logit_noise, td_to64


def hook_beam(s, rec):
    rec.beam_steps = []
    rec.best_beam = None
    if type(s).__name__ != "BeamSearch":
        return
    orig_step = s._make_beam_step

    def make_beam_step(logprobs):
        parent = s.parent_beam_logprobs.detach().clone()
        lp = logprobs.detach().clone()
        sel, bbi = orig_step(logprobs)
        rec.beam_steps.append(dict(logprobs=lp, parent=parent, selected=sel.clone(), beam_parent=s.beam_path[-1].clone(), new_parent=s.parent_beam_logprobs.detach().clone()))
        return sel, bbi

    s._make_beam_step = make_beam_step
    orig_best = s._select_best_beam

    def select_best_beam(logprobs, actions, td, env):
        r_all = env.get_reward(td.clone(), actions.clone())
        out = orig_best(logprobs, actions, td, env)
        rec.best_beam = dict(all_actions=actions.clone(), all_logprobs=logprobs.detach().clone(), all_reward=r_all.detach().clone(), out_actions=out[1].clone(), out_logprobs=out[0].detach().clone())
        # the state handed back with the best beam must be THAT beam's final state (the policy recomputes the reward from
        # it; environments whose reward reads the final state - mTSP, MDCPDP, scheduling, selection - depend on it)
        W_, B_ = s.beam_width, actions.shape[0] // s.beam_width
        bad_rows = []
        try:
            td_out = out[2]
            for b in range(B_):
                js = [j for j in range(W_) if torch.equal(actions[j * B_ + b], out[1][b])]
                ok = False
                for j in js:
                    if all(torch.equal(td_out[k][b], td[k][j * B_ + b]) for k in td.keys() if isinstance(td[k], torch.Tensor) and k in td_out.keys()):
                        ok = True
                        break
                if js and not ok:
                    bad_rows.append((b, js))
            rec.best_beam["state_checked"] = B_
        except Exception as e:  # the tap must never break the call it observes
            rec.best_beam["state_error"] = repr(e)
        rec.best_beam["state_mismatch"] = bad_rows
        return out

    s._select_best_beam = select_best_beam


def case(ctx, case):
    name, n, B, W, seed = case["env"], case["n"], case["B"], case["W"], case["s"]
    env, O, cfg = policies.env_for(name, n)
    # decoding temperature other than 1: given to the policy's constructor or to the call (both documented); the replay below
    # evaluates the beams with the same setting, so a beam search that scores with another temperature shows up there
    T, via = float(case.get("temp", 1.0)), case.get("temp_via", "call")
    pol = policies.make(case.get("policy", "am"), env, seed=case.get("wseed", 0), **(dict(temperature=T) if (via == "ctor" and T != 1.0) else {}))
    dkw = dict(temperature=T) if (via == "call" and T != 1.0) else {}
    torch.manual_seed(seed)
    # history: the same policy object has already decoded other batches (a data loader's previous batches), among them one with
    # the same number of beam rows; nothing of those calls may survive into the observed one
    for (B2, W2) in case.get("warm") or []:
        with torch.no_grad():
            try:
                pol(env.reset(env.generator(batch_size=[B2])), env, phase="test", decode_type="beam_search", beam_width=W2, select_best=case["select_best"], return_actions=True, **dkw)
                ctx.count("c13_warmup_calls")
            except Exception:
                pass
    td_in = env.generator(batch_size=[B])
    if case.get("no_start"):
        # every other row has NO customer that may be visited first (OP: nothing within reach; SVRP: the first technician is less
        # skilled than every customer requires): the start rule sends such rows to the depot, their beams must still be feasible
        rows = list(range(0, B, 2))
        if name == "op":
            d = (td_in["locs"] - td_in["depot"][:, None, :]).norm(dim=-1)
            ml = td_in["max_length"].clone()
            ml[rows] = d[rows].min(-1).values  # even the nearest customer cannot be visited and left again
            td_in["max_length"] = ml
        elif name == "svrp":
            te = td_in["techs"].clone()
            te[rows, 0] = td_in["skills"][rows].reshape(len(rows), -1).min(-1).values.reshape(-1, 1) * 0.5
            td_in["techs"] = te
        ctx.count("c13_rows_without_feasible_start", len(rows))
    td0 = env.reset(td_in.clone())
    insts = [O.extract(td_in, td0, b, env) for b in range(B)]
    sig = dict(env=name, select_best=case["select_best"], temp=("1" if T == 1.0 else via), history=bool(case.get("warm")))
    if case.get("no_start"):
        sig["no_start_rows"] = True
    if case.get("policy", "am") != "am":
        sig["policy"] = case["policy"]
    tol = lambda x: 1e-4 * max(1.0, abs(x))
    if T != 1.0:
        ctx.count("c13_temperature_cases")
    with torch.no_grad(), PolicyTap(pol, keep_logits=True, on_strategy=hook_beam) as rec:
        try:
            out = pol(td0.clone(), env, phase="test", decode_type="beam_search", beam_width=W, select_best=case["select_best"], return_actions=True, return_sum_log_likelihood=False, **dkw)
        except Exception as e:
            ctx.evaluation()
            ctx.violation(dict(sig, q="beam_raises", exc=type(e).__name__), f"beam search (width {W}, B={B}) raised {type(e).__name__}: {str(e)[:200]}", dict(n=n, B=B, W=W))
            return
    ctx.count("c13_beam_calls")
    steps = rec.beam_steps
    # ---- per-step top-k audit (from the tapped _make_beam_step) ---------------------------------------
    for t, st in enumerate(steps):
        lp, par = st["logprobs"], st["parent"]
        R, N = lp.shape
        score = (lp + par).reshape(W, B, N)  # row j*B+b = beam j of instance b
        sel = st["selected"].reshape(W, B)
        bp = st["beam_parent"].reshape(W, B).long()
        for b in range(B):
            ctx.evaluation()
            ctx.count("c13_topk_audits")
            sc = score[:, b, :].reshape(-1).double()
            want = torch.topk(sc, W).values
            kept = torch.stack([score[bp[j, b], b, sel[j, b]].double() for j in range(W)])
            fin = torch.isfinite(want)
            if not bool(torch.isfinite(kept[fin.nonzero().flatten()] if fin.any() else kept[:0]).all()) or bool((torch.sort(kept, descending=True).values[fin] - want[fin]).abs().max() > 1e-5 if fin.any() else False):
                ctx.violation(dict(sig, q="not_top_k"), f"step {t+1}, instance {b}: kept beam scores {sorted(kept.tolist(), reverse=True)} are not the {W} highest expansions {want.tolist()}", dict(n=n, B=B, W=W, step=t + 1))
                return
            pairs = set((int(bp[j, b]), int(sel[j, b])) for j in range(W))
            if len(pairs) != W and int(fin.sum()) >= W:
                ctx.violation(dict(sig, q="duplicate_expansion"), f"step {t+1}, instance {b}: the same (parent, node) expansion was kept twice", dict(n=n, B=B, W=W, step=t + 1))
                return
            np_ = st["new_parent"].reshape(W, B)
            if bool((np_[:, b].double() - kept).abs().max() > 1e-5) and bool(torch.isfinite(kept).all()):
                ctx.violation(dict(sig, q="parent_score"), f"step {t+1}, instance {b}: stored cumulative beam log-probs differ from parent + step log-prob", dict(n=n, B=B, W=W))
                return
    actions, ll_steps, reward = out["actions"], out["log_likelihood"], out["reward"]
    if case["select_best"]:
        bb = rec.best_beam
        if bb is None:
            ctx.count("c13_best_tap_missed")
            return
        ctx.count("c13_best_taps")
        ctx.count("c13_best_state_rows", bb.get("state_checked", 0))
        if bb.get("state_mismatch"):
            b_, js_ = bb["state_mismatch"][0]
            ctx.evaluation()
            ctx.violation(dict(sig, q="best_state"), f"instance {b_}: the state returned with the best beam is not the final state of that beam (beam index {js_})", dict(n=n, B=B, W=W))
            return
        all_a, all_r = bb["all_actions"].reshape(W, B, -1), bb["all_reward"].reshape(W, B)
        for b in range(B):
            ctx.evaluation()
            ctx.count("c13_best_rows")
            cand = [O.objective(insts[b], strip(all_a[j, b].tolist(), name)) for j in range(W)]
            best = max(cand)
            if abs(float(reward[b]) - best) > tol(best):
                ctx.violation(dict(sig, q="best_reward"), f"instance {b}: returned reward {float(reward[b])} != max over its {W} beams {best} ({cand})", dict(n=n, B=B, W=W))
                return
            ok = [j for j in range(W) if abs(cand[j] - best) <= tol(best)]
            if not any(torch.equal(actions[b], all_a[j, b]) for j in ok):
                ctx.violation(dict(sig, q="best_actions"), f"instance {b}: returned actions are not those of a best beam of that instance", dict(n=n, B=B, W=W))
                return
        beams_a, beams_ll, rows_inst = bb["all_actions"], bb["all_logprobs"], [r % B for r in range(W * B)]
        beams_ll = beams_ll.gather(-1, beams_a.unsqueeze(-1)).squeeze(-1) if beams_ll.dim() == 3 else beams_ll
    else:
        beams_a, beams_ll, rows_inst = actions, ll_steps, [r % B for r in range(actions.shape[0])]
        if actions.shape[0] != W * B:
            ctx.violation(dict(sig, q="beam_rows"), f"{actions.shape[0]} beams returned for B={B}, W={W}", None)
            return
    # ---- every beam: feasible, reward consistent, distinct, log-probs = replay ----------------------------
    R = beams_a.shape[0]
    seen = {}
    for r in range(R):
        b = rows_inst[r]
        acts = strip(beams_a[r].tolist(), name)
        ctx.evaluation()
        ctx.count("c13_beams_checked")
        v = [x for x in O.violations(insts[b], acts) if x[1] == "violated"]
        if v:
            ctx.violation(dict(sig, q="beam_infeasible", constraint=v[0][0]), f"beam {r} of instance {b} is infeasible: {v[0][0]}: {v[0][2]}", dict(n=n, B=B, W=W, actions=acts, inst=insts[b]))
            return
        if not case["select_best"]:
            ref = O.objective(insts[b], acts)
            if abs(float(reward[r]) - ref) > tol(ref):
                ctx.violation(dict(sig, q="beam_reward"), f"beam {r}: reward {float(reward[r])} != objective {ref} of its sequence on instance {b}", dict(n=n, B=B, W=W))
                return
        key = (b, tuple(beams_a[r].tolist()))
        if key in seen:
            firsts = [int(beams_a[x, 0]) for x in range(R) if rows_inst[x] == b]
            if len(set(firsts)) == len(firsts):
                ctx.violation(dict(sig, q="duplicate_beams"), f"instance {b}: beams {seen[key]} and {r} are the same sequence although all forced first moves are distinct", dict(n=n, B=B, W=W, actions=acts))
                return
            ctx.count("c13_duplicate_beams_with_duplicate_starts")
        seen[key] = r
        ctx.nontrivial_case(dict(i=insts[b], a=acts, W=W))
    # replay all beams through env + decoder in evaluate mode on the replicated instances
    from rl4co.utils.ops import batchify

    tdr = batchify(td0.clone(), W) if R == W * B else None
    if tdr is not None:
        with torch.no_grad():
            ev = pol(tdr, env, phase="test", actions=beams_a.clone(), return_sum_log_likelihood=False, **dkw)
        ctx.count("c13_replays", R)
        d = (ev["log_likelihood"][:, 1:].double() - beams_ll[:, 1:].double()).abs()
        if bool((d > 1e-4 + logit_noise(rec)).any()):  # beyond the float32 allowance: decide in float64
            # the same beam search and the same evaluation in double precision: a conditioning effect vanishes (agreement
            # ~1e-9), a wrong parent / back-tracking index does not
            with torch.no_grad(), Float64(pol):
                # all beams are needed for the comparison, whatever the observed call selected
                o64 = pol(td_to64(td0), env, phase="test", decode_type="beam_search", beam_width=W, select_best=False, return_actions=True, return_sum_log_likelihood=False, **dkw)
                a64, l64 = o64["actions"], o64["log_likelihood"]
                ok64 = None
                if a64.shape[0] == W * B:
                    e64 = pol(batchify(td_to64(td0), W), env, phase="test", actions=a64.clone(), return_sum_log_likelihood=False, **dkw)["log_likelihood"]
                    L = min(e64.shape[1], l64.shape[1])
                    d64 = (e64[:, 1:L] - l64[:, 1:L]).abs()
                    ok64 = not bool((d64 > 1e-7 * (1 + l64[:, 1:L].abs())).any())
            ctx.count("c13_float64_escalations")
            if ok64:
                ctx.ambiguous += 1
                ctx.count("c13_float32_conditioning_cases")
                ctx.sample(dict(case=case, float32_gap=float(d.max()), float64_gap=float(d64.max())))
                return
            r = int(d.max(1).values.argmax())
            ctx.violation(dict(sig, q="beam_logprobs"), f"beam {r}: per-step log-probs returned by beam search differ from those the policy assigns along that very sequence by up to {float(d.max()):.4g} (back-tracking / parent re-indexing)",
                          dict(n=n, B=B, W=W, beam=beams_a[r].tolist(), returned=beams_ll[r].tolist(), replay=ev["log_likelihood"][r].tolist()))
            return
        if bool((beams_ll[:, 0] != 0).any()):
            ctx.violation(dict(sig, q="forced_start_nonzero"), "forced first moves contribute to the beams' log-probs", None)
            return
    ctx.sample(dict(case=case, beams_row0=beams_a[0].tolist()))


def sched_case(ctx, case):
    """Beam search of the L2D policy on FJSP / JSSP (variable-length scheduling episodes, random forced first moves).
    Monitors: (0) the forced first moves, observed where the environment hands them out, are eligible in THEIR row's instance
    (row r of the expanded batch is instance r mod B); (1) every returned beam is an executable, complete schedule of its own
    instance by the reference simulator; (2) its reward is minus the makespan of that schedule; (3) with select_best the
    returned row is the best of the instance's own beams (tapped inside the call)."""
    from vlib import envzoo
    from vlib.oracles import scheduling as S

    cfg, B, W, seed = case["cfg"], case["B"], case["W"], case["s"]
    name = cfg["env"]
    env = envzoo.make_other(cfg)
    torch.manual_seed(seed)
    td_in = env.generator(batch_size=[B])
    td0 = env.reset(td_in.clone())
    insts = [S.JobShop.extract(td0.clone(), b) for b in range(B)]
    pol = policies.make("l2d", env, seed=case.get("wseed", 0))
    dec = S.fjsp_decode(cfg["mas"]) if name == "fjsp" else S.jssp_decode()
    sig = dict(env=name, select_best=case["select_best"], policy="l2d", mask_no_ops=cfg["mask_no_ops"])
    starts = []
    orig_sel = env.select_start_nodes

    def sel_tap(td, num_starts):
        mask = td["action_mask"].clone()
        a = orig_sel(td, num_starts)
        starts.append((mask, a.clone(), num_starts))
        return a

    env.select_start_nodes = sel_tap
    try:
        with torch.no_grad(), PolicyTap(pol, keep_logits=False, on_strategy=hook_beam) as rec:
            torch.manual_seed(seed + 1)
            out = pol(td0.clone(), env, phase="test", decode_type="beam_search", beam_width=W, select_best=case["select_best"], return_actions=True)
    except Exception as e:
        ctx.evaluation()
        ctx.violation(dict(sig, q="beam_raises", exc=type(e).__name__), f"beam search (width {W}, B={B}) raised {type(e).__name__}: {str(e)[:200]}", dict(B=B, W=W))
        return
    finally:
        env.select_start_nodes = orig_sel
    ctx.count("c13_beam_calls")
    ctx.count("c13_sched_beam_calls")
    for mask, a, ns in starts:
        Bm = mask.shape[0]
        rows = a.reshape(-1)
        for r in range(rows.numel()):
            ctx.evaluation()
            ctx.count("c13_forced_starts_checked")
            if not bool(mask[r % Bm, int(rows[r])]):
                ctx.violation(dict(sig, q="forced_start_infeasible"), f"row {r} (instance {r % Bm}) is forced to start with action {int(rows[r])}, which its instance's mask forbids", dict(B=B, W=W, row=r))
                return
    acts_all, rew = out["actions"], out["reward"].reshape(-1)
    R = acts_all.shape[0]
    per_inst = {}
    for r in range(R):
        b = r % B
        acts = [int(a) for a in acts_all[r].tolist()]
        s2, f2, m2, done2, err = S.JobShop.simulate(insts[b], acts, dec, not cfg["mask_no_ops"])
        ctx.evaluation()
        ctx.count("c13_beams_checked")
        if err is not None or not done2:
            ctx.violation(dict(sig, q="beam_infeasible"), f"returned beam (row {r}, instance {b}) is not an executable complete schedule of its instance: {err or 'schedule not finished'}", dict(row=r, inst=insts[b], actions=acts))
            return
        mk = max(f for f, p in zip(f2, insts[b]["pad"]) if not p and f is not None)
        if abs(float(rew[r]) + mk) > 1e-4 * max(1.0, abs(mk)):
            ctx.violation(dict(sig, q="beam_reward"), f"row {r}: reported reward {float(rew[r])}, the schedule of the returned actions has makespan {mk}", dict(row=r, inst=insts[b], actions=acts))
            return
        per_inst.setdefault(b, []).append(mk)
        ctx.nontrivial_case(dict(i=insts[b], a=acts, W=W))
    if case["select_best"] and rec.best_beam is not None:
        ctx.count("c13_best_taps")
        bb = rec.best_beam
        all_r = bb["all_reward"].reshape(W, B)
        for b in range(B):
            ctx.evaluation()
            ctx.count("c13_best_rows")
            best = float(all_r[:, b].max())
            if abs(float(rew[b]) - best) > 1e-4 * max(1.0, abs(best)):
                ctx.violation(dict(sig, q="best_reward"), f"instance {b}: returned reward {float(rew[b])} != max over its {W} beams {best}", dict(B=B, W=W))
                return
    ctx.sample(dict(case={k: v for k, v in case.items()}, makespans={str(k): v[:4] for k, v in list(per_inst.items())[:3]}))
