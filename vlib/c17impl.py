"""C17 — datasets, collation and baseline wrapping preserve instance identity and order."""
from __future__ import annotations

import torch
from tensordict import TensorDict

from vlib import policies
from vlib.taps import td_fingerprint


def make_td(n_items, seed, env_name):
    """instances from a real generator + a fingerprint id + assorted dtypes/shapes."""
    env, O, cfg = policies.env_for(env_name, 6)
    torch.manual_seed(seed)
    td = env.generator(batch_size=[n_items])
    td["uid"] = torch.arange(n_items) * 7 + 3  # int64 id
    td["flag"] = (torch.arange(n_items) % 3 == 0)  # bool
    td["half"] = torch.arange(n_items).to(torch.float64) / 8  # float64
    td["mat"] = torch.arange(n_items * 6).reshape(n_items, 2, 3).to(torch.int32)
    return env, td


def build(kind, td):
    from rl4co.data.dataset import ExtraKeyDataset, FastTdDataset, TensorDictDataset, TensorDictDatasetFastGeneration

    extra = td["uid"].float() * 0.5 + 1  # a function of the instance id: must travel with its instance
    if kind == "td":
        return TensorDictDataset(td.clone()), None
    if kind == "fast":
        return FastTdDataset(td.clone()), None
    if kind == "fastgen":
        return TensorDictDatasetFastGeneration(td.clone()), None
    if kind == "td+extra":
        return TensorDictDataset(td.clone()).add_key("extra", extra), extra
    if kind == "fast+extra":
        return FastTdDataset(td.clone()).add_key("extra", extra), extra
    if kind == "fastgen+extra":
        return TensorDictDatasetFastGeneration(td.clone()).add_key("extra", extra), extra
    if kind == "extrakey_explicit":
        return ExtraKeyDataset(TensorDictDataset(td.clone()), extra, key_name="bl"), extra
    raise KeyError(kind)


def read_all(ds, bs, shuffle, seed, via_module=None):
    from torch.utils.data import DataLoader

    if via_module is not None:
        torch.manual_seed(seed)
        dl = via_module._dataloader_single(ds, bs, shuffle)
    else:
        g = torch.Generator().manual_seed(seed)
        dl = DataLoader(ds, batch_size=bs, shuffle=shuffle, collate_fn=ds.collate_fn, generator=g if shuffle else None)
    batches = [b if isinstance(b, TensorDict) else TensorDict(b, batch_size=[len(next(iter(b.values())))]) for b in dl]
    return batches


def roundtrip_case(ctx, case):
    kind, N, bs, shuffle, seed = case["ds"], case["N"], case["bs"], case["shuffle"], case["s"]
    env, td = make_td(N, seed, case.get("env", "cvrp"))
    fp0 = td_fingerprint(td)
    ds, extra = build(kind, td)
    sig = dict(ds=kind, shuffle=shuffle)
    module = None
    if case.get("via_module"):
        from rl4co.models import REINFORCE

        module = REINFORCE(env, policy=policies.make("am", env), baseline="no", train_data_size=4, val_data_size=4, test_data_size=4)
    for rep in range(2):  # reading twice must give the same (iteration must not change the dataset)
        try:
            batches = read_all(ds, bs, shuffle, seed + rep, module)
        except Exception as e:
            ctx.evaluation()
            ctx.violation(dict(sig, q="loader_raises", exc=type(e).__name__), f"reading the dataset through a DataLoader raised {type(e).__name__}: {str(e)[:200]}", dict(N=N, bs=bs))
            return
        ctx.count("c17_loader_passes")
        sizes = [b.batch_size[0] for b in batches]
        want_sizes = [bs] * (N // bs) + ([N % bs] if N % bs else [])
        ctx.evaluation()
        if sizes != want_sizes:
            ctx.violation(dict(sig, q="batch_sizes"), f"batches of sizes {sizes}, expected {want_sizes}", dict(N=N, bs=bs))
            return
        if N % bs:
            ctx.count("c17_partial_last_batch")
        allb = torch.cat(batches, 0)
        uid = allb["uid"]
        idx = ((uid - 3) // 7).long()
        if not shuffle:
            if not torch.equal(idx, torch.arange(N)):
                ctx.violation(dict(sig, q="order"), f"instances come back in order {idx.tolist()[:12]}.. instead of the original order", dict(N=N, bs=bs))
                return
        else:
            if sorted(idx.tolist()) != list(range(N)):
                ctx.violation(dict(sig, q="lost_or_duplicated"), f"shuffled read does not return every instance exactly once: {sorted(idx.tolist())[:12]}", dict(N=N, bs=bs))
                return
            ctx.count("c17_shuffled_reads")
        for k in td.keys():
            got = allb[k]
            want = td[k][idx]
            ctx.count("c17_key_checks")
            if got.dtype != want.dtype or got.shape != want.shape:
                ctx.violation(dict(sig, q="dtype_shape", key=str(k) if k in ("uid", "flag", "half", "mat") else "instance_data"), f"key {k}: {got.dtype}{tuple(got.shape)} read back, original {want.dtype}{tuple(want.shape)}", dict(N=N, bs=bs))
                return
            if not torch.equal(got, want):
                ctx.violation(dict(sig, q="content"), f"key {k}: content of the instances read back differs from the originals (row pairing broken)", dict(N=N, bs=bs))
                return
        if extra is not None:
            key = "bl" if kind == "extrakey_explicit" else "extra"
            if key not in allb.keys():
                ctx.violation(dict(sig, q="extra_missing"), f"extra key '{key}' missing from the batches", None)
                return
            ctx.count("c17_extra_checks", N)
            if not torch.equal(allb[key].float().reshape(N), (uid.float() * 0.5 + 1)):
                ctx.violation(dict(sig, q="extra_pairing"), "the extra per-instance value does not travel with its instance", dict(N=N, bs=bs, got=allb[key].tolist()[:8], uid=uid.tolist()[:8]))
                return
        ctx.nontrivial_case(dict(c=case, rep=rep))
    if td_fingerprint(td) != fp0:
        ctx.violation(dict(sig, q="source_mutated"), "building / iterating the dataset modified the source TensorDict", None)
    ctx.sample(dict(case=case))


def baseline_case(ctx, case):
    """RolloutBaseline.wrap_dataset: extra[i] must be the baseline policy's greedy reward on instance i."""
    from rl4co.models.rl.reinforce.baselines import RolloutBaseline, WarmupBaseline
    from torch.utils.data import DataLoader

    N, bs_bl, bs, shuffle, seed = case["N"], case["bs_bl"], case["bs"], case["shuffle"], case["s"]
    env, O, cfg = policies.env_for(case["env"], 6)
    pol = policies.make("am", env, seed=seed % 5)
    torch.manual_seed(seed)
    bl = RolloutBaseline()
    bl.setup(pol, env, batch_size=bs_bl, device="cpu", dataset_size=max(4, N // 2))
    if case.get("warmup"):
        wb = WarmupBaseline(bl, n_epochs=1)
        # during warm-up (alpha = 0) no value is attached at all; after the first epoch callback the rollout baseline wraps
        wb.epoch_callback(pol, env=env, batch_size=bs_bl, device="cpu", epoch=0, dataset_size=8)
        wrapper = wb
    else:
        wrapper = bl
    ds = env.dataset([N]) if not case.get("dscls") else None
    td_src = None
    if ds is None:
        from rl4co.data.dataset import FastTdDataset, TensorDictDatasetFastGeneration

        td_src = env.generator(batch_size=[N])
        ds = {"fast": FastTdDataset, "fastgen": TensorDictDatasetFastGeneration}[case["dscls"]](td_src.clone())
    sig = dict(q0="baseline", env=case["env"], dscls=case.get("dscls", "default"))
    wrapped = wrapper.wrap_dataset(ds, env, batch_size=bs_bl, device="cpu")
    ctx.count("c17_wrap_calls")
    g = torch.Generator().manual_seed(seed)
    dl = DataLoader(wrapped, batch_size=bs, shuffle=shuffle, collate_fn=wrapped.collate_fn, generator=g if shuffle else None)
    n_seen = 0
    for batch in dl:
        if not isinstance(batch, TensorDict):
            batch = TensorDict(batch, batch_size=[len(batch["extra"])])
        extra = batch["extra"]
        inst = batch.exclude("extra")
        with torch.inference_mode():
            ref = bl.policy(env.reset(inst.clone()), env, decode_type="greedy")["reward"]
        for i in range(extra.shape[0]):
            ctx.evaluation()
            ctx.count("c17_baseline_rows")
            n_seen += 1
            if abs(float(extra[i]) - float(ref[i])) > 1e-4 * max(1.0, abs(float(ref[i]))):
                ctx.violation(dict(sig, q="extra_vs_greedy", shuffle=shuffle), f"baseline value {float(extra[i])} attached to an instance != the baseline policy's greedy reward {float(ref[i])} on that instance", dict(N=N, bs=bs, bs_bl=bs_bl))
                return
    if n_seen != N:
        ctx.violation(dict(sig, q="rows_lost"), f"{n_seen} rows read from a wrapped dataset of {N}", None)
    ctx.nontrivial_case(dict(c=case))
