"""C17 — datasets, collation and baseline wrapping preserve instance identity and order."""
from __future__ import annotations

import torch
from tensordict import TensorDict

from vlib import policies
from vlib.taps import td_fingerprint


def make_td(n_items, seed, env_name):
    """instances from a real generator + a fingerprint id + assorted dtypes/shapes."""
    env, O, cfg = policies.env_for(env_name, 6)
    torch.manual_seed(seed)
    td = env.generator(batch_size=[n_items])
    td["uid"] = torch.arange(n_items) * 7 + 3  # int64 id
    td["flag"] = (torch.arange(n_items) % 3 == 0)  # bool
    td["half"] = torch.arange(n_items).to(torch.float64) / 8  # float64
    td["mat"] = torch.arange(n_items * 6).reshape(n_items, 2, 3).to(torch.int32)
    return env, td


def extra_of(uid, dtype="float32"):
    """a per-instance value that is a function of the instance id, in the requested dtype (ids above 2**24 and doubles are not
    representable in float32: a cast on the way shows)"""
    if dtype == "int64":
        return uid.long() * 3 + 2**24 + 1
    if dtype == "float64":
        return uid.double() / 3 + 1e-9
    if dtype == "bool":
        return (uid % 2 == 1)
    return uid.float() * 0.5 + 1


def build(kind, td, extra_dtype="float32", key="extra"):
    from rl4co.data.dataset import ExtraKeyDataset, FastTdDataset, TensorDictDataset, TensorDictDatasetFastGeneration

    extra = extra_of(td["uid"], extra_dtype)  # a function of the instance id: must travel with its instance
    if kind == "td":
        return TensorDictDataset(td.clone()), None
    if kind == "fast":
        return FastTdDataset(td.clone()), None
    if kind == "fastgen":
        return TensorDictDatasetFastGeneration(td.clone()), None
    if kind == "td+extra":
        return TensorDictDataset(td.clone()).add_key(key, extra), extra
    if kind == "fast+extra":
        return FastTdDataset(td.clone()).add_key(key, extra), extra
    if kind == "fastgen+extra":
        return TensorDictDatasetFastGeneration(td.clone()).add_key(key, extra), extra
    if kind == "extrakey_explicit":
        return ExtraKeyDataset(TensorDictDataset(td.clone()), extra, key_name="bl"), extra
    raise KeyError(kind)


def read_all(ds, bs, shuffle, seed, via_module=None):
    from torch.utils.data import DataLoader

    if via_module is not None:
        torch.manual_seed(seed)
        dl = via_module._dataloader_single(ds, bs, shuffle)
    else:
        g = torch.Generator().manual_seed(seed)
        dl = DataLoader(ds, batch_size=bs, shuffle=shuffle, collate_fn=ds.collate_fn, generator=g if shuffle else None)
    batches = [b if isinstance(b, TensorDict) else TensorDict(b, batch_size=[len(next(iter(b.values())))]) for b in dl]
    return batches


def roundtrip_case(ctx, case):
    kind, N, bs, shuffle, seed = case["ds"], case["N"], case["bs"], case["shuffle"], case["s"]
    env, td = make_td(N, seed, case.get("env", "cvrp"))
    fp0 = td_fingerprint(td)
    ds, extra = build(kind, td, case.get("extra_dtype", "float32"), case.get("key", "extra"))
    sig = dict(ds=kind, shuffle=shuffle)
    if case.get("key", "extra") != "extra":
        sig["key"] = "custom"
    if case.get("extra_dtype", "float32") != "float32":
        sig["extra_dtype"] = case["extra_dtype"]
    module = None
    if case.get("via_module"):
        from rl4co.models import REINFORCE

        module = REINFORCE(env, policy=policies.make("am", env), baseline="no", train_data_size=4, val_data_size=4, test_data_size=4)
    for rep in range(2):  # reading twice must give the same (iteration must not change the dataset)
        try:
            batches = read_all(ds, bs, shuffle, seed + rep, module)
        except Exception as e:
            ctx.evaluation()
            ctx.violation(dict(sig, q="loader_raises", exc=type(e).__name__), f"reading the dataset through a DataLoader raised {type(e).__name__}: {str(e)[:200]}", dict(N=N, bs=bs))
            return
        ctx.count("c17_loader_passes")
        sizes = [b.batch_size[0] for b in batches]
        want_sizes = [bs] * (N // bs) + ([N % bs] if N % bs else [])
        ctx.evaluation()
        if sizes != want_sizes:
            ctx.violation(dict(sig, q="batch_sizes"), f"batches of sizes {sizes}, expected {want_sizes}", dict(N=N, bs=bs))
            return
        if N % bs:
            ctx.count("c17_partial_last_batch")
        allb = torch.cat(batches, 0)
        uid = allb["uid"]
        idx = ((uid - 3) // 7).long()
        if not shuffle:
            if not torch.equal(idx, torch.arange(N)):
                ctx.violation(dict(sig, q="order"), f"instances come back in order {idx.tolist()[:12]}.. instead of the original order", dict(N=N, bs=bs))
                return
        else:
            if sorted(idx.tolist()) != list(range(N)):
                ctx.violation(dict(sig, q="lost_or_duplicated"), f"shuffled read does not return every instance exactly once: {sorted(idx.tolist())[:12]}", dict(N=N, bs=bs))
                return
            ctx.count("c17_shuffled_reads")
        for k in td.keys():
            got = allb[k]
            want = td[k][idx]
            ctx.count("c17_key_checks")
            if got.dtype != want.dtype or got.shape != want.shape:
                ctx.violation(dict(sig, q="dtype_shape", key=str(k) if k in ("uid", "flag", "half", "mat") else "instance_data"), f"key {k}: {got.dtype}{tuple(got.shape)} read back, original {want.dtype}{tuple(want.shape)}", dict(N=N, bs=bs))
                return
            if not torch.equal(got, want):
                ctx.violation(dict(sig, q="content"), f"key {k}: content of the instances read back differs from the originals (row pairing broken)", dict(N=N, bs=bs))
                return
        if extra is not None:
            key = "bl" if kind == "extrakey_explicit" else case.get("key", "extra")
            if key not in allb.keys():
                ctx.violation(dict(sig, q="extra_missing"), f"extra key '{key}' missing from the batches (keys read back: {sorted(map(str, allb.keys()))})", None)
                return
            stray = set(map(str, allb.keys())) - set(map(str, td.keys())) - {key}
            if stray:
                ctx.violation(dict(sig, q="stray_key"), f"batches carry keys {sorted(stray)} that were neither in the instances nor attached", None)
                return
            ctx.count("c17_extra_checks", N)
            want_x = extra_of(uid, case.get("extra_dtype", "float32"))
            got_x = allb[key].reshape(N)
            if got_x.dtype != want_x.dtype:
                ctx.violation(dict(sig, q="extra_dtype"), f"the extra per-instance value comes back as {got_x.dtype}, it was attached as {want_x.dtype}", dict(N=N, bs=bs))
                return
            if not torch.equal(got_x, want_x):
                ctx.violation(dict(sig, q="extra_pairing"), "the extra per-instance value does not travel with its instance", dict(N=N, bs=bs, got=allb[key].tolist()[:8], uid=uid.tolist()[:8]))
                return
        ctx.nontrivial_case(dict(c=case, rep=rep))
    if td_fingerprint(td) != fp0:
        ctx.violation(dict(sig, q="source_mutated"), "building / iterating the dataset modified the source TensorDict", None)
    ctx.sample(dict(case=case))


def baseline_case(ctx, case):
    """RolloutBaseline.wrap_dataset: extra[i] must be the baseline policy's greedy reward on instance i."""
    from rl4co.models.rl.reinforce.baselines import RolloutBaseline, WarmupBaseline
    from torch.utils.data import DataLoader

    N, bs_bl, bs, shuffle, seed = case["N"], case["bs_bl"], case["bs"], case["shuffle"], case["s"]
    env, O, cfg = policies.env_for(case["env"], 6)
    pol = policies.make("am", env, seed=seed % 5)
    torch.manual_seed(seed)
    bl = RolloutBaseline()
    bl.setup(pol, env, batch_size=bs_bl, device="cpu", dataset_size=max(4, N // 2))
    if case.get("warmup"):
        wb = WarmupBaseline(bl, n_epochs=1)
        # during warm-up (alpha = 0) no value is attached at all; after the first epoch callback the rollout baseline wraps
        wb.epoch_callback(pol, env=env, batch_size=bs_bl, device="cpu", epoch=0, dataset_size=8)
        wrapper = wb
    else:
        wrapper = bl
    ds = env.dataset([N]) if not case.get("dscls") else None
    td_src = None
    if ds is None:
        from rl4co.data.dataset import FastTdDataset, TensorDictDatasetFastGeneration

        td_src = env.generator(batch_size=[N])
        ds = {"fast": FastTdDataset, "fastgen": TensorDictDatasetFastGeneration}[case["dscls"]](td_src.clone())
    sig = dict(q0="baseline", env=case["env"], dscls=case.get("dscls", "default"))
    wrapped = wrapper.wrap_dataset(ds, env, batch_size=bs_bl, device="cpu")
    ctx.count("c17_wrap_calls")
    g = torch.Generator().manual_seed(seed)
    dl = DataLoader(wrapped, batch_size=bs, shuffle=shuffle, collate_fn=wrapped.collate_fn, generator=g if shuffle else None)
    n_seen = 0
    for batch in dl:
        if not isinstance(batch, TensorDict):
            batch = TensorDict(batch, batch_size=[len(batch["extra"])])
        extra = batch["extra"]
        inst = batch.exclude("extra")
        ref, marg = _greedy(bl.policy, env, inst, with_margin=True)
        for i in range(extra.shape[0]):
            n_seen += 1
            if marg[i] < MARGIN:
                ctx.ambiguous += 1
                ctx.count("c17_near_tie_rows_skipped")
                continue
            ctx.evaluation()
            ctx.count("c17_baseline_rows")
            if abs(float(extra[i]) - float(ref[i])) > 1e-4 * max(1.0, abs(float(ref[i]))):
                ctx.violation(dict(sig, q="extra_vs_greedy", shuffle=shuffle), f"baseline value {float(extra[i])} attached to an instance != the baseline policy's greedy reward {float(ref[i])} on that instance", dict(N=N, bs=bs, bs_bl=bs_bl))
                return
    if n_seen != N:
        ctx.violation(dict(sig, q="rows_lost"), f"{n_seen} rows read from a wrapped dataset of {N}", None)
    ctx.nontrivial_case(dict(c=case))


MARGIN = 1e-4  # a row whose greedy decode has a top-2 logit gap below this may legitimately flip between batch layouts


def _greedy(policy, env, inst, with_margin=False):
    """greedy rewards of `policy` on the rows of `inst`; with_margin: also the smallest top-2 gap of the feasible logits
    along each row's decode (rows decided by a near-tie are not comparable across batch compositions - C14's float guard)."""
    from vlib.c14impl import min_margin
    from vlib.taps import PolicyTap

    policy.eval()
    with torch.inference_mode():
        if not with_margin:
            return policy(env.reset(inst.clone()), env, decode_type="greedy")["reward"]
        with PolicyTap(policy) as rec:
            r = policy(env.reset(inst.clone()), env, decode_type="greedy")["reward"]
        return r, [min_margin(rec, row=i) if rec.steps else 0.0 for i in range(r.shape[0])]


def _check_batches(ctx, sig, env, wrapped, bs, shuffle, seed, ref_pol, bl, phase, limit=None):
    """read `wrapped`; every row's extra must equal the greedy reward of ref_pol (the monitor's own frozen copy of the policy
    the baseline was last built from) on that row; bl.policy must give the same."""
    from torch.utils.data import DataLoader

    g = torch.Generator().manual_seed(seed)
    dl = DataLoader(wrapped, batch_size=bs, shuffle=shuffle, collate_fn=wrapped.collate_fn, generator=g if shuffle else None)
    n = 0
    for batch in dl:
        if not isinstance(batch, TensorDict):
            batch = TensorDict(batch, batch_size=[len(batch["extra"])])
        extra = batch["extra"].reshape(-1)
        inst = batch.exclude("extra")
        ref, marg = _greedy(ref_pol, env, inst, with_margin=True)
        ref = ref.reshape(-1)
        ref_bl = _greedy(bl.policy, env, inst).reshape(-1)
        for i in range(extra.shape[0]):
            n += 1
            if marg[i] < MARGIN:
                ctx.ambiguous += 1
                ctx.count("c17_near_tie_rows_skipped")
                continue
            ctx.evaluation()
            ctx.count("c17_baseline_rows")
            ctx.count("c17_history_rows")
            tol = 1e-4 * max(1.0, abs(float(ref[i])))
            if abs(float(extra[i]) - float(ref[i])) > tol:
                ctx.violation(dict(sig, q="extra_vs_greedy", phase=phase), f"[{phase}] baseline value {float(extra[i])} attached to an instance != greedy reward {float(ref[i])} of the policy the baseline was built from", None)
                return False
            if abs(float(ref_bl[i]) - float(ref[i])) > tol:
                ctx.violation(dict(sig, q="baseline_policy_moved", phase=phase), f"[{phase}] the baseline's frozen policy now gives {float(ref_bl[i])} on an instance, the policy it was built from gave {float(ref[i])}", None)
                return False
        if limit and n >= limit:
            break
    return True


def history_case(ctx, case):
    """wrap -> read -> the live policy takes optimizer steps -> read -> baseline replaced -> wrap the SAME dataset again -> read."""
    import copy

    from rl4co.models.rl.reinforce.baselines import RolloutBaseline, WarmupBaseline

    N, bs_bl, bs, shuffle, seed = case["N"], case["bs_bl"], case["bs"], case["shuffle"], case["s"]
    env, O, cfg = policies.env_for(case["env"], 6)
    # the policy's own validation / test decoding may be stochastic: the baseline is a GREEDY rollout whatever they say
    pkw = dict(val_decode_type="sampling", test_decode_type="sampling") if case.get("val_sampling") else {}
    pol = policies.make("am", env, seed=seed % 5, **pkw)
    torch.manual_seed(seed)
    bl = RolloutBaseline()
    bl.setup(pol, env, batch_size=bs_bl, device="cpu", dataset_size=max(4, N // 2))
    ref_pol = copy.deepcopy(pol)
    wrapper = bl

    def train_mode():
        # a hand-written loop calling module.train() recursively also reaches the baseline's policy (a submodule of the
        # lightning module): wrapping must not depend on the mode it was left in
        if case.get("train_flip", True) and isinstance(getattr(bl, "policy", None), torch.nn.Module):
            bl.policy.train()
            ctx.count("c17_train_mode_flips")
    if case.get("warmup"):
        wrapper = WarmupBaseline(bl, n_epochs=1)
        wrapper.alpha = 1.0
    if case.get("dscls"):
        from rl4co.data.dataset import FastTdDataset, TensorDictDatasetFastGeneration

        ds = {"fast": FastTdDataset, "fastgen": TensorDictDatasetFastGeneration}[case["dscls"]](env.generator(batch_size=[N]))
    else:
        ds = env.dataset([N])
    sig = dict(q0="baseline_history", env=case["env"], dscls=case.get("dscls", "default"))
    train_mode()
    wrapped = wrapper.wrap_dataset(ds, env, batch_size=bs_bl, device="cpu")
    ctx.count("c17_wrap_calls")
    if not _check_batches(ctx, sig, env, wrapped, bs, shuffle, seed, ref_pol, bl, "after_wrap", limit=max(bs, N // 2)):
        return
    # the live policy trains on: real optimizer steps on a REINFORCE loss
    opt = torch.optim.Adam(pol.parameters(), lr=5e-3)
    for k in range(case.get("opt_steps", 2)):
        pol.train()
        out = pol(env.reset(env.generator(batch_size=[8])), env, decode_type="sampling")
        loss = -((out["reward"] - out["reward"].mean()) * out["log_likelihood"]).mean()
        opt.zero_grad()
        loss.backward()
        opt.step()
    ctx.count("c17_optimizer_steps", case.get("opt_steps", 2))
    if not _check_batches(ctx, sig, env, wrapped, bs, shuffle, seed + 1, ref_pol, bl, "after_optimizer_steps"):
        return
    # the baseline is replaced by the trained policy (what epoch_callback does when the candidate wins) and the same
    # training set is wrapped again
    bl._update_policy(pol, env, batch_size=bs_bl, device="cpu", dataset_size=max(4, N // 2))
    ref_pol = copy.deepcopy(pol)
    train_mode()
    wrapped2 = wrapper.wrap_dataset(ds, env, batch_size=bs_bl, device="cpu")
    ctx.count("c17_wrap_calls")
    ctx.count("c17_rewraps")
    if not _check_batches(ctx, sig, env, wrapped2, bs, shuffle, seed + 2, ref_pol, bl, "after_rewrap"):
        return
    ctx.nontrivial_case(dict(c=case))
    ctx.sample(dict(case=case))


def fit_case(ctx, case):
    """A real RL4COTrainer.fit of REINFORCE with the rollout baseline (optionally inside warm-up): every training batch that
    carries 'extra' is checked against the greedy reward of the baseline's policy AND of the monitor's own frozen copy taken
    when the baseline was last rebuilt (hook on RolloutBaseline._update_policy)."""
    import copy
    import os
    import shutil
    import tempfile

    import rl4co.models as M
    from rl4co.models.rl.reinforce.baselines import RolloutBaseline
    from rl4co.utils.trainer import RL4COTrainer

    seed = case["s"]
    env, O, cfg = policies.env_for(case["env"], 8)
    torch.manual_seed(seed)
    pol = policies.make("am", env, seed=seed % 5)
    bl_name = "rollout"
    kw = dict(batch_size=case["bs"], train_data_size=case["N"], val_data_size=4, test_data_size=4, optimizer_kwargs=dict(lr=case.get("lr", 3e-3)), shuffle_train_dataloader=case["shuffle"])
    if case.get("warmup"):
        kw["baseline_kwargs"] = dict(n_epochs=case["warmup"])
        bl_name = "rollout"
        model = M.AttentionModel(env, pol, baseline=bl_name, **kw) if False else M.REINFORCE(env, pol, baseline=bl_name, **kw)
    else:
        model = M.REINFORCE(env, pol, baseline=bl_name, **kw)
    sig = dict(q0="baseline_fit", env=case["env"], warmup=bool(case.get("warmup")))
    state = dict(ref=None, updates=0, batches=0, rows=0, bad=None, skipped=0)
    inner = model.baseline.baseline if hasattr(model.baseline, "baseline") and isinstance(getattr(model.baseline, "baseline", None), RolloutBaseline) else model.baseline
    if not isinstance(inner, RolloutBaseline):
        ctx.note(f"fit_case: baseline is {type(inner).__name__}")
        return
    orig_update = inner._update_policy

    def update(policy, *a, **k):
        state["ref"] = copy.deepcopy(policy)
        state["updates"] += 1
        return orig_update(policy, *a, **k)

    inner._update_policy = update
    orig_step = model.shared_step

    def shared_step(batch, batch_idx, phase, *a, **k):
        if phase == "train" and "extra" in batch.keys() and state["bad"] is None and state["ref"] is not None:
            was_training = model.policy.training
            extra = batch["extra"].reshape(-1)
            inst = batch.exclude("extra")
            ref, marg = _greedy(state["ref"], env, inst, with_margin=True)
            ref = ref.reshape(-1)
            ref_bl = _greedy(inner.policy, env, inst).reshape(-1)
            state["batches"] += 1
            for i in range(extra.shape[0]):
                if marg[i] < MARGIN:
                    state["skipped"] += 1
                    continue
                state["rows"] += 1
                tol = 1e-4 * max(1.0, abs(float(ref[i])))
                if abs(float(extra[i]) - float(ref[i])) > tol:
                    state["bad"] = ("extra_vs_greedy", f"epoch {model.current_epoch} batch {batch_idx}: attached {float(extra[i])} vs greedy reward {float(ref[i])} of the policy the baseline was built from")
                    break
                if abs(float(ref_bl[i]) - float(ref[i])) > tol:
                    state["bad"] = ("baseline_policy_moved", f"epoch {model.current_epoch} batch {batch_idx}: baseline policy now gives {float(ref_bl[i])}, the policy it was built from gave {float(ref[i])}")
                    break
            model.policy.train(was_training)
        return orig_step(batch, batch_idx, phase, *a, **k)

    model.shared_step = shared_step
    d = tempfile.mkdtemp(prefix="verif-c17-", dir=os.environ.get("VERIF_SCRATCH", None))
    cwd = os.getcwd()
    try:
        os.chdir(d)
        trainer = RL4COTrainer(matmul_precision="highest", max_epochs=case.get("epochs", 3), accelerator="cpu", devices=1, logger=False, enable_checkpointing=False, enable_progress_bar=False, enable_model_summary=False, precision="32-true", default_root_dir=d)
        trainer.fit(model)
    finally:
        os.chdir(cwd)
        shutil.rmtree(d, ignore_errors=True)
    ctx.count("c17_fit_runs")
    ctx.count("c17_fit_batches_with_extra", state["batches"])
    ctx.count("c17_baseline_rows", state["rows"])
    ctx.count("c17_fit_baseline_rebuilds", state["updates"])
    ctx.count("c17_near_tie_rows_skipped", state["skipped"])
    ctx.ambiguous += state["skipped"]
    ctx.evaluation(max(1, state["rows"]))
    if state["bad"]:
        ctx.violation(dict(sig, q=state["bad"][0], phase="fit"), state["bad"][1], None)
        return
    if state["batches"]:
        ctx.nontrivial_case(dict(c=case))
        ctx.sample(dict(case=case, batches_with_extra=state["batches"], rows=state["rows"], baseline_rebuilds=state["updates"]))


def module_files_case(ctx, case):
    """File-backed validation / test sets through the training module's own data path: RL4COLitModule.setup() ->
    env.dataset(phase) -> val_dataloader() / test_dataloader(), with setup() run more than once in the process (fit then test;
    load_from_checkpoint does the same) and, optionally, several validation files with named loaders. Every pass must hand out
    exactly the instances of the file, in file order (CVRP: demand divided by the file's capacity, as the loader documents)."""
    import os
    import shutil
    import tempfile

    import numpy as np

    import rl4co.envs as E
    from rl4co.data.generate_data import generate_dataset
    from rl4co.models import REINFORCE

    prob, sizes, N, bs, seed = case["problem"], case["sizes"], case["N"], case["bs"], case["s"]
    d = tempfile.mkdtemp(prefix="verif-c17-")
    sig = dict(kind="module_files", problem=prob, multi=len(sizes) > 1)
    try:
        names = []
        for i, n in enumerate(sizes):
            fn = f"{prob}{n}_val{i}.npz"
            generate_dataset(filename=os.path.join(d, fn), problem=prob, dataset_size=N + i, graph_sizes=[n], seed=seed + i, overwrite=True)
            names.append(fn)
        tfn = f"{prob}{sizes[0]}_test.npz"
        generate_dataset(filename=os.path.join(d, tfn), problem=prob, dataset_size=N + 2, graph_sizes=[sizes[0]], seed=seed + 50, overwrite=True)
        cls = {"tsp": E.TSPEnv, "vrp": E.CVRPEnv}[prob]
        val_file = names if len(names) > 1 else names[0]
        # (names deliberately not in alphabetical order: name j must stay with loader j and batch size j)
        dl_names = [["zz_large", "aa_small", "mm_mid", "bb_extra", "yy"][j % 5] + (str(j) if j >= 5 else "") for j in range(len(names))] if (len(names) > 1 and case.get("named")) else None
        env = cls(generator_params=dict(num_loc=sizes[0]), data_dir=d, val_file=val_file, test_file=tfn, val_dataloader_names=dl_names, check_solution=False)
        # (the documented training-loader option must not leak into the validation / test loaders, which report per-position results)
        model = REINFORCE(env, policy=policies.make("am", env), baseline="no", batch_size=4, val_batch_size=bs, test_batch_size=bs, train_data_size=8, val_data_size=N, test_data_size=N,
                          shuffle_train_dataloader=bool(case.get("shuffle_train")))
        sig["shuffle_train"] = bool(case.get("shuffle_train"))

        def expected(fn):
            raw = dict(np.load(os.path.join(d, fn)))
            out = {k: torch.from_numpy(v) for k, v in raw.items()}
            if prob == "vrp":
                out["demand"] = out["demand"] / out["capacity"][:, None]
            return out

        def read(dl):
            bs_ = [b for b in dl]
            return torch.cat(bs_, 0) if bs_ else None

        for rep, stage in enumerate(case.get("stages", ["fit", "test"])):
            model.setup(stage)
            ctx.count("c17_module_setups")
            vdl = model.val_dataloader()
            vdls = vdl if isinstance(vdl, list) else [vdl]
            if len(vdls) != len(names):
                ctx.evaluation()
                ctx.violation(dict(sig, q="loader_count"), f"{len(vdls)} validation loaders for {len(names)} validation files", None)
                return
            if len(names) > 1:
                want_names = dl_names or [f"{j}" for j in range(len(names))]
                if list(model.dataloader_names or []) != want_names:
                    ctx.evaluation()
                    ctx.violation(dict(sig, q="loader_names"), f"validation loaders are named {model.dataloader_names}, expected {want_names}", None)
                    return
            for what, fn, dl in [("val", f_, l_) for f_, l_ in zip(names, vdls)] + [("test", tfn, model.test_dataloader())]:
                got, want = read(dl), expected(fn)
                ctx.evaluation()
                ctx.count("c17_module_file_reads")
                n_want = next(iter(want.values())).shape[0]
                if got is None or got.batch_size[0] != n_want:
                    ctx.violation(dict(sig, q="lost_or_duplicated", phase=what, setup_pass=min(rep, 1)), f"{what} loader of {fn} (setup pass {rep}) hands out {None if got is None else got.batch_size[0]} instances, the file holds {n_want}", None)
                    return
                for k, w in want.items():
                    g = got[k]
                    if g.shape != w.shape or not torch.allclose(g.double(), w.double(), rtol=0, atol=1e-7):
                        ctx.violation(dict(sig, q="content", phase=what, setup_pass=min(rep, 1), key=k), f"{what} loader of {fn}, setup pass {rep}: key '{k}' differs from the file's instances (in file order)", dict(N=N, bs=bs, sizes=sizes))
                        return
                ctx.nontrivial_case(dict(c=case, f=fn, r=rep))
        # an explicit file name overrides the file configured for the phase (documented: "Overriding dataset filename")
        from torch.utils.data import DataLoader

        for ph in ("val", "test", "train"):
            other = tfn if ph != "test" else names[0]
            ds_o = env.dataset(phase=ph, filename=os.path.join(d, other))
            got = torch.cat([b for b in DataLoader(ds_o, batch_size=bs, collate_fn=ds_o.collate_fn)], 0)
            want = expected(other)
            ctx.evaluation()
            ctx.count("c17_filename_override_reads")
            n_want = next(iter(want.values())).shape[0]
            if got.batch_size[0] != n_want or any(got[k].shape != w.shape or not torch.allclose(got[k].double(), w.double(), rtol=0, atol=1e-7) for k, w in want.items()):
                ctx.violation(dict(sig, q="filename_override_ignored", phase=ph), f"env.dataset(phase='{ph}', filename={other}) does not return the instances of {other} ({got.batch_size[0]} rows; the env has its own {ph} file configured)", None)
                return
        ctx.sample(dict(case=case, loaders=len(names)))
    finally:
        shutil.rmtree(d, ignore_errors=True)
