"""C09 — improvement environments: every transition keeps tours valid and best-so-far bookkeeping exact.

The monitor shadows each row with its own record (initial cost, running minimum, sum of rewards) and
checks after EVERY env.step / step_to_solution:
  * rec_current and rec_best are single cycles through all nodes (PDP: each pickup before its delivery,
    walking from the depot),
  * cost_current == length(rec_current), cost_bsf == length(rec_best) == monitor's running minimum,
  * cost_bsf never increases, reward == previous cost_bsf - new cost_bsf, sum rewards == initial - best,
  * visited_time == the visiting order of rec_current (what the policies read).
Lengths are recomputed in float64 from the coordinates (pure Python).
"""
from __future__ import annotations

import math

import torch


def walk(rec):
    """order of nodes starting at node 0, or None if rec is not one cycle through all nodes."""
    n = len(rec)
    seen, cur, order = set(), 0, []
    for _ in range(n):
        if cur in seen or not (0 <= cur < n):
            return None
        seen.add(cur)
        order.append(cur)
        cur = rec[cur]
    return order if cur == 0 else None


def tour_length(locs, rec):
    return math.fsum(math.hypot(locs[i][0] - locs[rec[i]][0], locs[i][1] - locs[rec[i]][1]) for i in range(len(rec)))


def pdp_precedence_ok(order):
    n = len(order)
    h = (n - 1) // 2
    pos = {a: i for i, a in enumerate(order)}
    return [p for p in range(1, h + 1) if pos[p] > pos[p + h]]


class Shadow:
    """per-batch shadow state kept by the monitor."""

    def __init__(self, ctx, sig, td, pdp, env=None):
        self.ctx, self.sig, self.pdp, self.env = ctx, sig, pdp, env
        self.B = td.batch_size[0]
        self.locs = td["locs"].tolist()
        self.init = [None] * self.B
        self.run_min = [None] * self.B
        self.rew_sum = [0.0] * self.B
        self.prev_bsf = td["cost_bsf"].reshape(self.B).tolist()
        self.trace = [[] for _ in range(self.B)]
        self.dead = [False] * self.B
        self.observe(td, None, "reset")

    def tol(self, x):
        return 1e-4 * max(1.0, abs(x))

    def v(self, b, q, msg, td, action):
        self.ctx.violation(dict(self.sig, q=q), msg, dict(row=b, locs=self.locs[b], rec_current=td["rec_current"][b].tolist(), rec_best=td["rec_best"][b].tolist(),
                                                       action=None if action is None else action[b].tolist(), trace=self.trace[b][-6:]))
        self.dead[b] = True  # one report per row history

    def observe(self, td, action, kind):
        ctx = self.ctx
        rc, rb = td["rec_current"].tolist(), td["rec_best"].tolist()
        cc = td["cost_current"].reshape(self.B).tolist()
        cb = td["cost_bsf"].reshape(self.B).tolist()
        rw = td["reward"].reshape(self.B).tolist() if (kind != "reset" and "reward" in td.keys()) else [0.0] * self.B
        vt = td["visited_time"].tolist() if "visited_time" in td.keys() else None
        for b in range(self.B):
            if self.dead[b]:
                continue
            ctx.count("c09_transitions")
            ctx.evaluation()
            ctx.nontrivial_case(dict(r=rc[b], a=None if action is None else action[b].tolist(), k=kind))
            self.trace[b].append(dict(kind=kind, action=None if action is None else action[b].tolist(), cost_current=cc[b], cost_bsf=cb[b], reward=rw[b]))
            oc, ob = walk(rc[b]), walk(rb[b])
            if oc is None:
                self.v(b, "current_not_single_cycle", f"after {kind}: rec_current {rc[b]} is not a single cycle through all nodes", td, action)
                continue
            if ob is None:
                self.v(b, "best_not_single_cycle", f"after {kind}: rec_best {rb[b]} is not a single cycle through all nodes", td, action)
                continue
            if self.pdp:
                bad = pdp_precedence_ok(oc)
                if bad:
                    self.v(b, "current_precedence", f"after {kind}: current tour {oc} delivers before pickup for pairs {bad}", td, action)
                    continue
                bad = pdp_precedence_ok(ob)
                if bad:
                    self.v(b, "best_precedence", f"after {kind}: best tour {ob} delivers before pickup for pairs {bad}", td, action)
                    continue
            lc, lb = tour_length(self.locs[b], rc[b]), tour_length(self.locs[b], rb[b])
            if abs(cc[b] - lc) > self.tol(lc):
                self.v(b, "cost_current", f"after {kind}: cost_current {cc[b]} != length of rec_current {lc}", td, action)
                continue
            if abs(cb[b] - lb) > self.tol(lb):
                self.v(b, "cost_bsf_vs_rec_best", f"after {kind}: cost_bsf {cb[b]} != length of the stored best tour {lb}", td, action)
                continue
            if self.init[b] is None:
                # the shadow may start from a state with history (warm-up chain): its ledger starts at the best stored then
                self.init[b] = lb
                self.run_min[b] = min(lc, lb)
            else:
                self.run_min[b] = min(self.run_min[b], lc)
            if abs(cb[b] - self.run_min[b]) > self.tol(lb):
                self.v(b, "cost_bsf_vs_running_min", f"after {kind}: cost_bsf {cb[b]} != minimum over all tours seen {self.run_min[b]}", td, action)
                continue
            if cb[b] > self.prev_bsf[b] + 1e-6:
                self.v(b, "bsf_increased", f"after {kind}: cost_bsf went up {self.prev_bsf[b]} -> {cb[b]}", td, action)
                continue
            if kind != "reset":
                want = self.prev_bsf[b] - cb[b]
                if abs(rw[b] - want) > 1e-5 * max(1.0, abs(cb[b])):
                    self.v(b, "reward", f"after {kind}: reward {rw[b]} != decrease of best-so-far {want}", td, action)
                    continue
                self.rew_sum[b] += rw[b]
                if abs(self.rew_sum[b] - (self.init[b] - lb)) > 1e-3 * max(1.0, self.init[b]):
                    self.v(b, "reward_sum", f"after {kind}: rewards sum to {self.rew_sum[b]} but initial - best = {self.init[b] - lb}", td, action)
                    continue
                if rw[b] > 1e-7:
                    ctx.count("c09_improving_steps")
                    self.trace[b][-1]["improved"] = True
                elif any(t.get("improved") for t in self.trace[b]):
                    ctx.count("c09_non_improving_after_improvement")
            if vt is not None:
                n = len(oc)
                exp = [0] * n
                for i, node in enumerate(oc):
                    exp[node] = i if i > 0 else n  # the library numbers the i-th successor of node 0 with i (node 0 itself gets n)
                got = vt[b]
                if [g % n for g in got] != [e % n for e in exp]:
                    self.v(b, "visited_time", f"after {kind}: visited_time {got} is not the visiting order of rec_current {oc}", td, action)
                    continue
            self.prev_bsf[b] = cb[b]
        self.accessors(td, kind)

    def accessors(self, td, kind):
        """the documented way to read the tours out of a state (get_current_solution / get_best_solution): the visiting order
        from node 0 of the stored successor arrays, and _get_linked_list_solution as their inverse"""
        if self.env is None:
            return
        try:
            cur = self.env.get_current_solution(td.clone()).tolist()
            best = self.env.get_best_solution(td.clone()).tolist()
            back = self.env._get_linked_list_solution(torch.as_tensor(best)).tolist()
        except Exception as e:
            self.ctx.violation(dict(self.sig, q="solution_accessor_raises"), f"after {kind}: get_current_solution / get_best_solution raised {type(e).__name__}: {str(e)[:160]}", None)
            self.env = None
            return
        rc, rb = td["rec_current"].tolist(), td["rec_best"].tolist()
        for b in range(self.B):
            if self.dead[b]:
                continue
            self.ctx.count("c09_solution_accessor_checks")
            oc, ob = walk(rc[b]), walk(rb[b])
            if oc is None or ob is None:
                continue
            if cur[b] != oc:
                self.v(b, "get_current_solution", f"after {kind}: get_current_solution gives {cur[b]}, the current tour walked from node 0 is {oc}", td, None)
            elif best[b] != ob:
                self.v(b, "get_best_solution", f"after {kind}: get_best_solution gives {best[b]}, the stored best tour walked from node 0 is {ob}", td, None)
            elif back[b] != rb[b]:
                self.v(b, "linked_list_of_solution", f"after {kind}: _get_linked_list_solution(get_best_solution) gives {back[b]}, stored successor array is {rb[b]}", td, None)


def make_env(cfg):
    import rl4co.envs as E

    kw = dict(_torchrl_mode=True) if cfg.get("torchrl") else {}
    if cfg["env"] == "tsp_kopt":
        return E.TSPkoptEnv(generator_params=dict(num_loc=cfg["n"], init_sol_type=cfg.get("init", "random")), k_max=cfg.get("k", 2), **kw), False
    return E.PDPRuinRepairEnv(generator_params=dict(num_loc=cfg["n"], init_sol_type=cfg.get("init", "random")), **kw), True


def sampler_case(ctx, case):
    """the env's own random-move sampler over long chains (+ step_to_solution back to the best)."""
    cfg, B, seed = case["cfg"], case["B"], case["s"]
    env, pdp = make_env(cfg)
    torch.manual_seed(seed)
    td = env.reset(batch_size=[B])
    # a second, independent search on the SAME instances: its best tours are used as step_to_solution targets (some are
    # strictly better than this search's best, some worse)
    src = td["locs"].clone()
    if pdp:
        from tensordict import TensorDict

        td2 = env.reset(TensorDict({"depot": src[:, 0].clone(), "locs": src[:, 1:].clone()}, batch_size=[B]))
    else:
        from tensordict import TensorDict

        td2 = env.reset(TensorDict({"locs": src.clone()}, batch_size=[B]))
    sh = Shadow(ctx, dict(env=cfg["env"], k=cfg.get("k"), driver="sampler"), td, pdp, env)
    ctx.count("episodes")
    td3 = None
    if case.get("interleave"):
        # history: a second search on OTHER instances of the same shape is alive on the same env object (two data-loader
        # batches, a replayed memory): its steps alternate with the monitored ones and it is monitored as well
        td3 = env.reset(batch_size=[B])
        sh3 = Shadow(ctx, dict(env=cfg["env"], k=cfg.get("k"), driver="sampler", interleaved=True), td3, pdp, env)
        sh.sig = dict(sh.sig, interleaved=True)
    for t in range(case.get("steps", 40)):
        if td3 is not None:
            a3 = env._random_action(td3)
            td3.set("action", a3)
            td3 = env.step(td3)["next"]
            sh3.observe(td3, a3, "step")
            ctx.count("c09_interleaved_steps")
        if case.get("jump_every") and (t + 1) % case["jump_every"] == 0:
            for _ in range(3):
                td2.set("action", env._random_action(td2))
                td2 = env.step(td2)["next"]
            before = td["cost_bsf"].clone()
            td = env.step_to_solution(td, td2["rec_best"].clone())
            sh.observe(td, None, "step_to_solution")
            ctx.count("c09_step_to_other_solution")
            ctx.count("c09_step_to_better_solution", int((td["cost_bsf"] < before - 1e-6).sum()))
        a = env._random_action(td)
        td.set("action", a)
        before = td["rec_current"].clone()
        if cfg.get("torchrl"):
            # TorchRL mode: step() returns the state it was given (plus "next"); that state must still be the one it was
            # before the call - recorded trajectories keep every state they stepped from
            snap = {k: td[k].clone() for k in td.keys() if k not in ("action", "next") and isinstance(td[k], torch.Tensor)}
            root = env.step(td)
            ctx.count("c09_torchrl_steps")
            for k, v in snap.items():
                ctx.evaluation()
                if k in root.keys() and isinstance(root[k], torch.Tensor) and (root[k].shape != v.shape or not torch.equal(root[k], v)):
                    ctx.violation(dict(env=cfg["env"], k=cfg.get("k"), driver="sampler", q="stepped_state_rewritten", key=str(k)),
                                  f"TorchRL mode: after env.step the state that was stepped FROM has a different '{k}' (e.g. rec_best of step t+1 next to cost_bsf of step t)", None)
                    return
            td = root["next"]
        else:
            td = env.step(td)["next"]
        sh.observe(td, a, "step")
        if case.get("to_best_every") and (t + 1) % case["to_best_every"] == 0:
            # n-step PPO's curriculum hands the state's own best tour back WITHOUT copying it (`step_to_solution(td, td["rec_best"])`):
            # the current and the best tour must not end up sharing storage
            td = env.step_to_solution(td, td["rec_best"] if case.get("alias_best") else td["rec_best"].clone())
            if case.get("alias_best"):
                ctx.count("c09_step_to_own_best_uncopied")
            sh.observe(td, None, "step_to_solution")
            ctx.count("c09_step_to_solution")
    ctx.sample(dict(case=case, final_cost_bsf=td["cost_bsf"].tolist()[:3], trace_row0=sh.trace[0][:4]))


def exhaustive_case(ctx, case):
    """ALL mask-admitted moves from a state (2-opt: n^2 - n; ruin-repair: every (pair, first, second) the mask admits),
    from several states reached by random chains."""
    cfg, seed = case["cfg"], case["s"]
    env, pdp = make_env(cfg)
    torch.manual_seed(seed)
    td = env.reset(batch_size=[1])
    for _ in range(case.get("warm", 0)):
        td.set("action", env._random_action(td))
        td = env.step(td)["next"]
    n = td["rec_current"].shape[-1]
    if not pdp:
        mask = env.get_mask(td)[0]  # [n,n]
        moves = torch.nonzero(mask)
    else:
        moves = []
        for p in range(n // 2):
            m = env.get_mask(torch.tensor([[p + 1]]), td)[0]
            ij = torch.nonzero(m)
            moves.append(torch.cat((torch.full((ij.shape[0], 1), p), ij), 1))
        moves = torch.cat(moves, 0)
    M = moves.shape[0]
    if M == 0:
        return
    big = torch.cat([td.clone() for _ in range(M)], 0)
    sh = Shadow(ctx, dict(env=cfg["env"], k=cfg.get("k"), driver="all_admitted_moves"), big, pdp, env)
    big.set("action", moves)
    big = env.step(big)["next"]
    sh.observe(big, moves, "step")
    ctx.count("c09_exhaustive_states")
    ctx.count("c09_exhaustive_moves", M)
    # second level: from each successor, one more random move (improve-then-worsen sequences)
    a = env._random_action(big)
    big.set("action", a)
    big = env.step(big)["next"]
    sh.observe(big, a, "step")


def policy_case(ctx, case):
    cfg, B, seed = case["cfg"], case["B"], case["s"]
    env, pdp = make_env(cfg)
    torch.manual_seed(seed)
    import rl4co.models.zoo as Z

    kind = case["policy"]
    if kind == "dact":
        from rl4co.models.zoo.dact import DACTPolicy

        pol = DACTPolicy(env_name=env.name, embed_dim=32, num_encoder_layers=1, num_heads=2)
    elif kind == "neuopt":
        from rl4co.models.zoo.neuopt import NeuOptPolicy

        pol = NeuOptPolicy(env_name=env.name, embed_dim=32, num_encoder_layers=1, num_heads=2)
    else:
        from rl4co.models.zoo.n2s import N2SPolicy

        pol = N2SPolicy(env_name=env.name, embed_dim=32, num_encoder_layers=1, num_heads=2)
    pol.eval()
    td = env.reset(batch_size=[B])
    sh = Shadow(ctx, dict(env=cfg["env"], k=cfg.get("k"), driver="policy:" + kind, phase=case.get("phase", "test")), td, pdp, env)
    ctx.count("episodes")
    phase = case.get("phase", "test")
    with torch.no_grad():
        for t in range(case.get("steps", 12)):
            out = pol(td, env, phase=phase) if case.get("decode") is None else pol(td, env, phase=phase, decode_type=case["decode"])
            a = td["action"].clone()
            env.step(td)
            sh.observe(td, a, "step")
            ctx.count("c09_policy_steps", B)


def batch_independence_case(ctx, case):
    """C04 for the improvement envs: the move mask of a row, and what a move does to it, must be the same whether the row is
    stepped alone or inside a batch (other rows selecting other pairs / moves)."""
    cfg, B, seed = case["cfg"], case["B"], case["s"]
    env, pdp = make_env(cfg)
    torch.manual_seed(seed)
    td = env.reset(batch_size=[B])
    for _ in range(case.get("warm", 2)):
        td.set("action", env._random_action(td))
        td = env.step(td)["next"]
    g = torch.Generator().manual_seed(seed)
    n = td["rec_current"].shape[-1]
    sig = dict(env=cfg["env"], k=cfg.get("k"), context="batched", q="mask")
    ctx.count("episodes")
    for rep in range(case.get("reps", 3)):
        if pdp:
            sel = torch.randint(1, n // 2 + 1, (B, 1), generator=g)  # one removed pair per row (column-shaped, as the policies pass it)
            m_b = env.get_mask(sel, td)
        else:
            sel = None
            m_b = env.get_mask(td)
        acts = []
        for b in range(B):
            solo = td[b : b + 1].clone()
            m_s = env.get_mask(sel[b : b + 1], solo)[0] if pdp else env.get_mask(solo)[0]
            ctx.evaluation()
            ctx.count("c04_context_comparisons")
            ctx.count("c04_ctx_improvement_mask")
            if m_s.shape != m_b[b].shape or not torch.equal(m_s, m_b[b]):
                ctx.violation(dict(sig), f"row {b}: the move mask inside a batch of {B} differs from the mask of the same state alone in {int((m_s != m_b[b]).sum())} entries", dict(B=B, row=b, n=n))
                return
            ij = torch.nonzero(m_s)
            pick = ij[int(torch.randint(0, ij.shape[0], (1,), generator=g))] if ij.shape[0] else torch.zeros(m_s.dim(), dtype=torch.long)
            acts.append(torch.cat((sel[b] - 1, pick)) if pdp else pick)
        a = torch.stack(acts)
        if not pdp and cfg.get("k", 2) > 2:
            # k-opt action format: k_max node indices; a 2-exchange is encoded in the first two slots, the rest closes early
            full = torch.zeros(B, cfg["k"], dtype=torch.long)
            full[:, :2] = a
            full[:, 2:] = a[:, :1]
            a = full
        tb = td.clone()
        tb.set("action", a)
        try:
            tb = env.step(tb)["next"]
        except Exception:
            return
        for b in range(B):
            ts = td[b : b + 1].clone()
            ts.set("action", a[b : b + 1])
            try:
                ts = env.step(ts)["next"]
            except Exception as e:
                ctx.evaluation()
                ctx.violation(dict(sig, q="solo_raises", exc=type(e).__name__), f"stepping one row alone raised {type(e).__name__}: {str(e)[:160]}", None)
                return
            ctx.evaluation()
            ctx.count("c04_ctx_improvement_step")
            for k_ in ("rec_current", "rec_best", "cost_current", "cost_bsf"):
                x, y = ts[k_][0], tb[k_][b]
                same = torch.equal(x, y) if x.dtype in (torch.long, torch.int64, torch.bool) else torch.allclose(x, y, rtol=1e-6, atol=1e-6)
                if not same:
                    ctx.violation(dict(sig, q="state_after_move", key=k_), f"row {b}: '{k_}' after the same move differs between the batched and the solo execution", dict(B=B, row=b))
                    return
            ctx.nontrivial_case(dict(r=td["rec_current"][b].tolist(), a=a[b].tolist()))
        td = tb
