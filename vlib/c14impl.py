"""C14 — inference is per-instance: solo greedy decode vs the same instance inside batches."""
from __future__ import annotations

import contextlib
import hashlib
import random

import torch

from vlib import policies
from vlib.sweep import sig_of
from vlib.taps import Float64, PolicyTap, logit_noise, td_to64


@contextlib.contextmanager
def pinned_matnet_randomness(policy):
    """MatNet draws a random one-hot column embedding with torch.rand(b, c) on every forward: two calls differ by
    design. For the comparison to mean anything the draw is made a function of each instance's cost matrix: while the
    init embedding runs, the name `torch` in its module resolves `rand` to a per-row seeded draw (everything else is
    the real torch). The library code itself is what runs."""
    import rl4co.models.nn.env_embeddings.init as init_mod

    embs = [m for m in policy.modules() if type(m).__name__ == "MatNetInitEmbedding"]
    if not embs:
        yield
        return
    if len(embs) > 1:  # one encoder per stage (multi-stage FFSP policy): pin each of them
        with contextlib.ExitStack() as stack:
            for e in embs:
                stack.enter_context(_pin_one(e))
            yield
        return
    with _pin_one(embs[0]):
        yield


@contextlib.contextmanager
def _pin_one(emb):
    import rl4co.models.nn.env_embeddings.init as init_mod

    orig_forward = emb.forward

    class Proxy:
        def __init__(self, rows):
            self.rows = rows

        def __getattr__(self, k):
            return getattr(torch, k)

        def rand(self, b, c, *a, **kw):
            out = []
            for i in range(b):
                g = torch.Generator().manual_seed(self.rows[i])
                out.append(torch.rand(c, generator=g))
            return torch.stack(out)

    def forward(td):
        dm = td["cost_matrix"]
        seeds = [int(hashlib.sha1(dm[i].contiguous().numpy().tobytes()).hexdigest()[:8], 16) for i in range(dm.shape[0])]
        real = init_mod.torch
        init_mod.torch = Proxy(seeds)
        try:
            return orig_forward(td)
        finally:
            init_mod.torch = real

    emb.forward = forward
    try:
        yield
    finally:
        emb.forward = orig_forward


DECODE_KW = dict(decode_type="greedy")


class _Rec:
    def __init__(self):
        self.steps, self.hits, self.strategy = [], {"decoder": 0}, None


def decode_multistage_ffsp(pol, env, td_in, tap=False):
    """MultiStageFFSPPolicy has its own decode loop (one decoder per stage); margins for the float-flip guard are read from the
    log-probs its stage decoders obtain from process_logits (all stages, conservative)."""
    import rl4co.models.zoo.matnet.decoder as dmod

    td = env.reset(td_in.clone())
    rec = _Rec()
    real = dmod.process_logits

    def tapped(logits, mask=None, **kw):
        lp = real(logits, mask, **kw)
        rec.steps.append(dict(logits=lp.detach().reshape(lp.shape[0], -1).clone(), mask=None, done=None))
        rec.hits["decoder"] += 1
        return lp

    if tap:
        dmod.process_logits = tapped
    try:
        with torch.inference_mode():
            out = pol(td, env, phase="test", num_starts=1, return_actions=True)
    finally:
        dmod.process_logits = real
    return out, (rec if tap else None)


def decode(pol, env, td_in, tap=False):
    if type(pol).__name__ == "MultiStageFFSPPolicy":
        return decode_multistage_ffsp(pol, env, td_in, tap)
    td = env.reset(td_in.clone())
    with torch.inference_mode():
        if tap:
            gl = getattr(pol.decoder, "_get_logprobs", None)  # MDAM: own decode loop over several decoder paths
            extra = []
            if gl is not None:
                def wrapped(*a, **kw):
                    out_ = gl(*a, **kw)
                    lp = out_[0]
                    extra.append(dict(logits=lp.detach().reshape(lp.shape[0], -1).clone(), mask=None, done=None))
                    return out_

                pol.decoder._get_logprobs = wrapped
            rc = getattr(pol.decoder, "recurrence", None)  # PointerNetwork: own decode loop inside decoder.forward
            if rc is not None:
                def wrapped_rc(*a, **kw):
                    out_ = rc(*a, **kw)
                    lp = out_[1]
                    extra.append(dict(logits=lp.detach().reshape(lp.shape[0], -1).clone(), mask=None, done=None))
                    return out_

                pol.decoder.recurrence = wrapped_rc
            try:
                with PolicyTap(pol) as rec:
                    out = pol(td, env, phase="test", return_actions=True, **DECODE_KW)
            finally:
                if gl is not None:
                    pol.decoder._get_logprobs = gl
                if rc is not None:
                    pol.decoder.recurrence = rc
            rec.steps += extra
            return out, rec
        return pol(td, env, phase="test", return_actions=True, **DECODE_KW), None


# policy kinds whose float64 decode was verified on the unchanged tree (see c11impl.F64_KINDS for the exclusions)
F64_KINDS = {"am", "am_instnorm", "am_layernorm", "ham", "symnco"}


def float64_agrees(pol, env, td_in, idx, pos, b):
    """solo decode of instance b and the batched decode of td_in[idx], both in double precision: True iff actions are equal
    and log-likelihood / reward agree to 1e-7 (then a float32 difference was conditioning, not batch dependence)."""
    with torch.inference_mode(), Float64(pol):
        o1 = pol(td_to64(env.reset(td_in[b : b + 1].clone())), env, phase="test", return_actions=True, **DECODE_KW)
        oB = pol(td_to64(env.reset(torch.cat([td_in[i : i + 1] for i in idx], 0).clone())), env, phase="test", return_actions=True, **DECODE_KW)
    a1, aB = o1["actions"][0], oB["actions"][pos]
    T = a1.shape[0]
    if aB.shape[0] < T or not torch.equal(aB[:T], a1):
        return False
    l1, lB = o1["log_likelihood"][0].reshape(-1), oB["log_likelihood"][pos].reshape(-1)
    r1, rB = o1["reward"][0].reshape(-1), oB["reward"][pos].reshape(-1)
    return l1.shape == lB.shape and bool(((l1 - lB).abs() <= 1e-7 * (1 + l1.abs())).all()) and bool(((r1 - rB).abs() <= 1e-7 * (1 + r1.abs())).all())


def min_margin(rec, row=0):
    """smallest top-2 gap of the feasible logits along a solo greedy decode (float-flip guard)."""
    mm = float("inf")
    for st in rec.steps:
        lg, mk = st["logits"], st["mask"]
        if lg.dim() > 2:
            lg = lg.reshape(lg.shape[0], -1)
        if mk is not None:
            mk = mk.reshape(mk.shape[0], -1).bool()
            if mk.shape != lg.shape:
                continue
            lg = lg.masked_fill(~mk, float("-inf"))
        l = lg[row]
        fin = l[torch.isfinite(l)]
        if fin.numel() >= 2:
            t = torch.topk(fin, 2).values
            mm = min(mm, float(t[0] - t[1]))
    return mm


def case(ctx, case):
    kind, name, n, m, seed = case["policy"], case["env"], case["n"], case["m"], case["s"]
    env, O, cfg = policies.env_for(name, n, **case.get("extra", {}))
    pol = policies.make(kind, env, seed=case.get("wseed", 0), **case.get("pkw", {}))
    torch.manual_seed(seed)
    if case.get("inst_n"):  # instances of another size than the env (and the policy's env) was constructed for
        td_in = policies.env_for(name, case["inst_n"], **case.get("extra", {}))[0].generator(batch_size=[m])
        ctx.count("c14_other_size_cases")
    else:
        td_in = env.generator(batch_size=[m])
    rnd = random.Random(seed)
    sig = dict(policy=kind, env=name)
    global DECODE_KW
    if case.get("multistart"):
        # best-of-k greedy multi-start (what evaluate_policy / POMO validation report per instance): also per-instance
        DECODE_KW = dict(decode_type="multistart_greedy", num_starts=case["multistart"], select_best=True)
        sig["decode"] = "multistart_greedy_best"
    else:
        DECODE_KW = dict(decode_type="greedy", **case.get("decode_kw", {}))
        if case.get("decode_kw"):
            sig["decode"] = "greedy+" + "+".join(sorted(case["decode_kw"]))
    with pinned_matnet_randomness(pol) if kind in ("matnet", "matnet_ffsp") else contextlib.nullcontext():
        # ---- solo references ---------------------------------------------------------------------
        refs = []

        def solo_instance(b):
            one = td_in[b : b + 1]
            if case.get("trim_pad") and "pad_mask" in one.keys() and "proc_times" in one.keys():
                # the instance on its own carries only ITS operations (a file instance loaded alone); in a batch it is padded to
                # the largest batch-mate. The amount of padding must not matter.
                from tensordict import TensorDict

                O_ = int((~one["pad_mask"][0]).sum())
                ctx.count("c14_solo_padding_trimmed", int(one["pad_mask"].shape[1] - O_))
                return TensorDict({"start_op_per_job": one["start_op_per_job"].clone(), "end_op_per_job": one["end_op_per_job"].clone(),
                                   "proc_times": one["proc_times"][:, :, :O_].clone(), "pad_mask": one["pad_mask"][:, :O_].clone()}, batch_size=[1])
            return one

        for b in range(m):
            try:
                out, rec = decode(pol, env, solo_instance(b), tap=True)
            except Exception as e:
                ctx.evaluation()
                ctx.violation(dict(sig, q="solo_raises", exc=type(e).__name__), f"greedy decode of a single instance (batch size 1) raised {type(e).__name__}: {str(e)[:200]}", dict(row=b, n=n))
                refs.append(None)
                continue
            ctx.count("c14_solo_decodes")
            if rec.hits["decoder"] == 0:
                ctx.count("c14_tap_missed")
            refs.append(dict(a=out["actions"][0].clone(), r=out["reward"][0].reshape(-1).clone(), ll=out["log_likelihood"][0].reshape(-1).clone(), margin=min_margin(rec) if rec.steps else float("inf"), noise=(logit_noise(rec) * max(1, len(rec.steps))) if rec.steps else 0.0))
        good = [b for b in range(m) if refs[b] is not None]
        if not good:
            return

        def compare(context, out, pos, b, B, idx=None):
            ref = refs[b]
            ctx.evaluation()
            ctx.count("c14_comparisons")
            ctx.count(f"c14_ctx_{context}")
            a = out["actions"][pos]
            T = ref["a"].shape[0]
            # actions beyond the solo episode's length are padding of a finished row: one constant no-op (the last node, the depot,
            # FFSP's "no job" index ...)
            same = a.shape[0] >= T and torch.equal(a[:T], ref["a"]) and (a.shape[0] == T or bool((a[T:] == a[T]).all()))
            r = out["reward"][pos].reshape(-1)  # [1] or [paths] (MDAM returns one reward per decoder path)
            ll = out["log_likelihood"][pos].reshape(-1)
            def conditioning():
                # beyond the float32 allowance: decide in float64 (unscaled CVRPTW: intermediates ~1e4, float32 log-probs
                # of correct code differ by up to ~0.2 between batch layouts)
                if idx is None or kind not in F64_KINDS:
                    return False
                ctx.count("c14_float64_escalations")
                try:
                    ok = float64_agrees(pol, env, td_in, idx, pos, b)
                except Exception:
                    return False
                if ok:
                    ctx.ambiguous += 1
                    ctx.count("c14_float32_conditioning_cases")
                return ok

            if not same:
                if ref["margin"] < 1e-5 + ref["noise"]:
                    ctx.ambiguous += 1  # near-tie in the solo decode: a flip under float noise is allowed by the property
                    return
                if conditioning():
                    return
                ctx.violation(dict(sig, q="actions", context=context), f"[{context}] greedy actions of the instance at position {pos} of a batch of {B} differ from its solo decode (solo top-2 margin {ref['margin']:.3g})",
                              dict(solo=ref["a"].tolist(), batched=a.tolist(), B=B, pos=pos, n=n))
                return
            if r.shape != ref["r"].shape or bool(((r - ref["r"]).abs() > 1e-5 * ref["r"].abs().clamp(min=1.0)).any()):
                if ref["margin"] < 1e-5:
                    ctx.ambiguous += 1
                    return
                ctx.violation(dict(sig, q="reward", context=context), f"[{context}] reward {r.tolist()} != solo {ref['r'].tolist()} with identical actions", dict(B=B, pos=pos))
                return
            if ll.shape != ref["ll"].shape or bool(((ll - ref["ll"]).abs() > 1e-4 * ref["ll"].abs().clamp(min=1.0) + ref["noise"]).any()):
                if ref["margin"] < 1e-5:
                    ctx.ambiguous += 1
                    return
                if conditioning():
                    return
                ctx.violation(dict(sig, q="loglik", context=context), f"[{context}] log-likelihood {ll.tolist()} != solo {ref['ll'].tolist()} with identical actions", dict(B=B, pos=pos, n=n))
                return
            ctx.nontrivial_case(dict(p=kind, e=name, a=ref["a"].tolist(), c=context, B=B, pos=pos))

        def run(context, idx):
            sub = torch.cat([td_in[i : i + 1] for i in idx], 0)
            try:
                out, _ = decode(pol, env, sub)
            except Exception as e:
                ctx.evaluation()
                ctx.violation(dict(sig, q="batch_raises", context=context, exc=type(e).__name__), f"[{context}] batched decode raised {type(e).__name__}: {str(e)[:200]}", dict(B=len(idx)))
                return
            for pos, b in enumerate(idx):
                compare(context, out, pos, b, len(idx), idx)

        run("pool", good)
        if len(good) >= 2:
            run("reversed", list(reversed(good)))
            for size in (2, 3, 5):
                if len(good) >= size:
                    run("subset", rnd.sample(good, size))
            b = rnd.choice(good)
            run("copies", [b, b, b])
            others = [x for x in good if x != b]
            run("copy_among_strangers", [others[0], b, b] + others[1:3])
    ctx.sample(dict(case=case, solo_reward=[None if r is None else r["r"].tolist() for r in refs][:3]))


def chunk_case(ctx, case):
    """evaluate_policy over one dataset with several data-loader batch sizes: per instance, the reported reward and the returned
    solution must not depend on how the dataset was chunked (last partial chunks, single-instance chunks included)."""
    from rl4co.tasks.eval import evaluate_policy

    kind, name, n, N, seed = case["policy"], case["env"], case["n"], case["N"], case["s"]
    env, O, cfg = policies.env_for(name, n, **case.get("extra", {}))
    pol = policies.make(kind, env, seed=case.get("wseed", 0))
    torch.manual_seed(seed)
    td_all = env.generator(batch_size=[N])
    sig = dict(policy=kind, env=name, context="evaluate_policy_chunking", method=case["method"])
    res = {}
    for bs in case["bss"]:
        ds = env.dataset_cls(td_all.clone())
        torch.manual_seed(seed + 1)
        try:
            r = evaluate_policy(env, pol, ds, method=case["method"], batch_size=bs, auto_batch_size=False, num_augment=case.get("A", 8), force_dihedral_8=("dihedral" in case["method"]), **(dict(num_starts=case["starts"]) if "multistart" in case["method"] else {}))
        except Exception as e:
            ctx.evaluation()
            ctx.violation(dict(sig, q="batch_raises", exc=type(e).__name__), f"evaluate_policy with batch_size={bs} raised {type(e).__name__}: {str(e)[:200]}", dict(N=N, bs=bs))
            return
        res[bs] = (r["rewards"].clone(), r["actions"].clone())
        ctx.count("c14_eval_chunkings")
    ref_bs = case["bss"][0]
    r0, a0 = res[ref_bs]
    for bs, (r, a) in res.items():
        if bs == ref_bs:
            continue
        for i in range(N):
            ctx.evaluation()
            ctx.count("c14_comparisons")
            ctx.count("c14_ctx_evaluate_policy_chunking")
            L = min(a.shape[1], a0.shape[1])
            x, y = a[i], a0[i]
            same = torch.equal(x[:L], y[:L]) and bool((x[L:] == (x[L - 1] if L else 0)).all() | (x[L:] == 0).all()) and bool((y[L:] == (y[L - 1] if L else 0)).all() | (y[L:] == 0).all())
            if not same or abs(float(r[i]) - float(r0[i])) > 1e-4 * max(1.0, abs(float(r0[i]))):
                # float-level near ties may flip a greedy choice between chunkings: decide by the objective of each returned solution
                ok_pair = all(abs(O.objective(O.extract(td_all, env.reset(td_all.clone()), i, env), [int(v) for v in acts.tolist()]) - float(rew[i])) <= 1e-4 * max(1.0, abs(float(rew[i]))) for acts, rew in ((x, r), (y, r0))) if O is not None else True
                if ok_pair and not same:
                    ctx.ambiguous += 1  # both chunkings return a correctly scored solution: a tie flip, not a mis-pairing
                    continue
                ctx.violation(dict(sig, q="actions" if not same else "reward"), f"instance {i}: evaluate_policy with batch_size={bs} returns reward {float(r[i])} / actions {x.tolist()[:12]}, with batch_size={ref_bs} reward {float(r0[i])} / actions {y.tolist()[:12]}",
                              dict(N=N, bs=bs, ref_bs=ref_bs))
                return
            ctx.nontrivial_case(dict(p=kind, e=name, a=y.tolist(), c="chunk", bs=bs, i=i))
