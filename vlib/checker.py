"""C06 — the built-in solution checkers vs the independent problem definitions.

Events: CHECK(env, instance, action sequence) -> raised / returned. Oracle: vlib.oracles.routing.violations.
Every candidate solution is classified by the oracle first:
  clean     (no violation, nothing in the tolerance band)  -> the checker MUST return     (else false_reject)
  violated  (>= 1 constraint broken beyond tolerance)       -> the checker MUST raise      (else false_accept)
  ambiguous (only band cases)                               -> counted, no verdict
Candidates: mask-generated episodes (padded as the env pads them and with padding stripped), feasibility-
preserving rewrites (no final depot visit, doubled depot visits, reversed route order, every route a
singleton where capacity allows), and single-fault corruptions (drop / duplicate / replace a customer, merge
two routes, swap or move customers, reverse, append unvisited nodes, remove several nodes).
The checker is called per row, on whole batches with exactly one corrupted row, and through
env.get_reward of an env constructed with check_solution=True.
"""
from __future__ import annotations

import random

import torch

from vlib import envzoo
from vlib.episode import run_episode
from vlib.oracles import routing as R
from vlib.sweep import sig_of

DEPOT_ENVS = {"cvrp", "cvrptw", "sdvrp", "svrp", "op", "pctsp", "spctsp", "mtvrp"}
CHECKED = DEPOT_ENVS | {"tsp", "atsp", "pdp"}


def call(env, td_rows, acts, via_reward=False):
    """returns None if the checker returned, else the exception."""
    a = torch.tensor(acts, dtype=torch.long)
    if a.dim() == 1:
        a = a[None]
    try:
        if via_reward:
            env.get_reward(td_rows.clone(), a.clone())
        else:
            env.check_solution_validity(td_rows.clone(), a.clone())
        return None
    except AssertionError as e:
        return e
    except (RuntimeError, IndexError, ValueError) as e:  # a checker that crashes on a bad solution still 'raises'
        return e


def classify(O, inst, acts):
    v = O.violations(inst, acts)
    hard = sorted(set(c for c, st, _ in v if st == "violated"))
    amb = [c for c, st, _ in v if st == "ambiguous"]
    if hard:
        return "violated", hard, v
    if amb:
        return "ambiguous", amb, v
    return "clean", [], v


def features(name, inst, acts):
    """mechanism-level features of a candidate, used in violation signatures (never seeds or values)."""
    f = {}
    if name in DEPOT_ENVS:
        f["no_depot_visit"] = 0 not in acts
        f["shape"] = "open_end" if acts and acts[-1] != 0 else ("depot_mid" if name in ("op", "pctsp", "spctsp") and 0 in acts[:-1] and any(a != 0 for a in acts[acts.index(0):]) else "canonical")
        q = inst.get("q")
        if q and name in ("cvrp", "cvrptw", "sdvrp", "mtvrp"):
            capi = int(round(inst["cap"] * q))
            tie = False
            if name == "sdvrp":
                rem = [int(round(v * q)) for v in inst["demand"]]
                used = 0
                for a in acts:
                    if a == 0:
                        used = 0
                        continue
                    if 0 <= a < len(rem):
                        if rem[a] > 0 and rem[a] == capi - used:
                            tie = True
                        d = min(rem[a], capi - used)
                        rem[a] -= d
                        used += d
            else:
                for r in R.split_routes(acts):
                    for key in ("demand", "lh", "bh"):
                        if key in inst and sum(int(round(inst[key][c] * q)) for c in r if 0 <= c < len(inst[key])) == capi:
                            tie = True
            f["exact_fill"] = tie
    return f


def rewrites(name, base, inst, rnd):
    """feasibility-preserving rewrites (still classified by the oracle before use)."""
    out = []
    if name in DEPOT_ENVS:
        a = list(base)
        while a and a[-1] == 0:
            a.pop()
        if a and a != base:
            out.append(("no_final_depot", a))
        if name != "svrp":  # SVRP: every depot visit sends the next technician -> not a rewrite of the same solution
            if 0 in base[:-1]:
                i = rnd.choice([k for k, x in enumerate(base[:-1]) if x == 0])
                out.append(("double_depot", base[: i + 1] + [0] + base[i + 1 :]))
            out.append(("trailing_depots", list(base) + [0, 0]))
            routes = R.split_routes(base)
            if len(routes) >= 2 and name not in ("op", "pctsp", "spctsp"):
                rr = list(reversed(routes))
                seq = []
                for r in rr:
                    seq += r + [0]
                out.append(("routes_reordered", seq))
        if name in ("cvrp", "mtvrp", "cvrptw"):
            seq = []
            for c in [x for x in base if x != 0]:
                seq += [c, 0]
            out.append(("singleton_routes", seq))
        if name in ("cvrp", "sdvrp", "mtvrp", "op", "pctsp", "spctsp"):
            routes = R.split_routes(base)
            seq = []
            for r in routes:
                seq += list(reversed(r)) + [0]
            out.append(("routes_reversed", seq))
    elif name in ("tsp", "atsp"):
        k = rnd.randrange(len(base))
        out.append(("rotated", base[k:] + base[:k]))
        out.append(("reversed", list(reversed(base))))
    return out


def corruptions(name, base, inst, rnd, k=8):
    n_nodes = len(inst["locs"]) if "locs" in inst else len(inst["cost"])
    cust = [a for a in base if a != 0] if name in DEPOT_ENVS or (name == "pdp") else list(base)
    allc = list(range(1, n_nodes)) if name in DEPOT_ENVS or name == "pdp" else list(range(n_nodes))
    ops = []
    if cust:
        def drop_short():
            i = rnd.choice([k for k, x in enumerate(base) if x in cust])
            return base[:i] + base[i + 1 :]
        ops.append(("drop_short", drop_short))

        def replace_other():
            i = rnd.choice([k for k, x in enumerate(base) if x in cust])
            others = [c for c in cust if c != base[i]]
            if not others:
                return None
            return base[:i] + [rnd.choice(others)] + base[i + 1 :]
        ops.append(("replace_dup", replace_other))

        def dup_insert():
            i = rnd.randrange(len(base) + 1)
            return base[:i] + [rnd.choice(cust)] + base[i:]
        ops.append(("dup_insert", dup_insert))

        def swap():
            idx = [k for k, x in enumerate(base) if x in cust]
            if len(idx) < 2:
                return None
            i, j = rnd.sample(idx, 2)
            a = list(base)
            a[i], a[j] = a[j], a[i]
            return a
        ops.append(("swap", swap))

        def move():
            idx = [k for k, x in enumerate(base) if x in cust]
            i = rnd.choice(idx)
            a = list(base)
            x = a.pop(i)
            a.insert(rnd.randrange(len(a) + 1), x)
            return a
        ops.append(("move", move))
        ops.append(("reverse", lambda: list(reversed(base))))
    if name in DEPOT_ENVS:
        def to_depot():
            i = rnd.choice([k for k, x in enumerate(base) if x != 0])
            return base[:i] + [0] + base[i + 1 :]
        ops.append(("replace_by_depot", to_depot))

        def merge():
            idx = [k for k, x in enumerate(base[:-1]) if x == 0 and k > 0]
            if not idx:
                return None
            i = rnd.choice(idx)
            return base[:i] + base[i + 1 :]
        ops.append(("merge_routes", merge))

        def merge_all():
            a = [x for x in base if x != 0]
            return a + [0] if a else None
        ops.append(("merge_all_routes", merge_all))
    if base and base[0] == 0 and cust:
        # the opening depot visit (PDP forced to start at the depot, routes written with a leading depot) replaced by a customer:
        # that customer is then served twice and the sequence no longer starts where it must
        ops.append(("first_action_customer", lambda: [rnd.choice(cust)] + list(base[1:])))
    if name in ("op", "pctsp", "spctsp"):
        def append_unvisited():
            un = [c for c in allc if c not in base]
            if not un:
                return None
            rnd.shuffle(un)
            a = [x for x in base if x != 0]
            return a + un[: rnd.randrange(1, len(un) + 1)] + [0]
        ops.append(("append_unvisited", append_unvisited))

        def remove_several():
            a = [x for x in base if x != 0]
            if len(a) < 2:
                return None
            keep = rnd.sample(a, rnd.randrange(0, len(a)))
            return [x for x in a if x in keep] + [0]
        ops.append(("remove_several", remove_several))
    out = []
    for _ in range(k):
        nm, f = rnd.choice(ops)
        try:
            m = f()
        except (IndexError, ValueError):
            m = None
        if m is None or m == base or not m:
            continue
        out.append((nm, m))
    # always include the structured ones once
    for nm, f in ops:
        if nm in ("merge_all_routes", "drop_short", "reverse", "append_unvisited", "first_action_customer"):
            try:
                m = f()
            except (IndexError, ValueError):
                m = None
            if m and m != base:
                out.append((nm, m))
    return out


def pad_to(rows, T):
    return [r + [0] * (T - len(r)) for r in rows]


def case(ctx, case):
    cfg, family, B, seed = case["cfg"], case["family"], case["B"], case["s"]
    name = cfg["env"]
    R.TAU_LOAD = 1e-4
    env, O = envzoo.make(cfg)
    cfg_chk = dict(cfg)
    envc = None
    rnd = random.Random(seed)
    td_in = envzoo.instances(env, cfg, family, B, seed)
    gen = torch.Generator().manual_seed(seed)
    names = envzoo.chooser_mix(B, seed)
    ep = run_episode(env, td_in, names, gen, max_steps=6 * cfg["n"] + 30)
    ctx.count("episodes")
    if ep.error is not None or hasattr(ep, "dead_end_at") or not ep.actions:
        ctx.count("c06_skipped_incomplete")
        return
    fins = [ep.finish_step(b) for b in range(B)]
    if any(f is None for f in fins):
        ctx.count("c06_skipped_incomplete")
        return
    insts = [O.extract(td_in, ep.td0, b, env) for b in range(B)]
    tdF = ep.td_final
    padded = ep.actions_tensor().tolist()
    label = dict(family=family)

    def must_accept(b, acts, variant, td_rows=None, via_reward=False, batch=False):
        if name == "sdvrp" and any(x == 0 and y == 0 for x, y in zip(acts, acts[1:])) and any(a != 0 for a in acts[[i for i, (x, y) in enumerate(zip(acts, acts[1:])) if x == 0 and y == 0][0] + 2 :]):
            # the SDVRP checker documents "cannot visit depot twice if any nonzero demand" (the pruning of pointless
            # moves the mask applies too): sequences with such a pair are outside what it promises to accept
            ctx.count("c06_skipped_sdvrp_consecutive_depots")
            return True
        exc = call(envc if via_reward else env, tdF[b : b + 1] if td_rows is None else td_rows, acts, via_reward)
        ctx.evaluation()
        ctx.count("c06_accept_checked")
        ctx.count(f"c06_accept_{variant}")
        if exc is not None:
            ctx.violation(sig_of(cfg, q="false_reject", variant=variant.split(":")[0], exc=type(exc).__name__, batch=batch, **label, **(features(name, insts[b], acts) if isinstance(b, int) and td_rows is None else {})),
                          f"checker rejects a solution that is feasible by the problem definition ({variant}): {type(exc).__name__}: {str(exc)[:160]}",
                          dict(row=b, inst=insts[b] if isinstance(b, int) else None, actions=acts, variant=variant))
        return exc is None

    def must_reject(b, acts, variant, hard, td_rows=None, via_reward=False, batch=False, info=None):
        exc = call(envc if via_reward else env, tdF[b : b + 1] if td_rows is None else td_rows, acts, via_reward)
        ctx.evaluation()
        ctx.count("c06_reject_checked")
        ctx.count(f"c06_reject_{'+'.join(hard)}")
        if exc is None:
            ft = features(name, insts[b], acts)
            ctx.violation(sig_of(cfg, q="false_accept", constraint="+".join(hard), batch=batch, shape=ft.get("shape"), **label),
                          f"checker accepts a solution that violates {hard} beyond tolerance (corruption: {variant}): {info}",
                          dict(row=b, inst=insts[b] if isinstance(b, int) else None, actions=acts, corruption=variant, oracle=info))
        return exc is not None

    clean_rows = []
    for b in range(B):
        base = ep.executed(b)
        st, why, v = classify(O, insts[b], base)
        if st == "ambiguous":
            ctx.ambiguous += 1
            continue
        if st == "violated":
            ctx.count("c06_mask_episode_infeasible")  # C01's business; not used as a base here
            continue
        clean_rows.append(b)
        ctx.nontrivial_case(dict(i=insts[b], a=base))
        must_accept(b, padded[b], "mask_padded")
        if padded[b] != base:
            must_accept(b, base, "mask_stripped")
        for variant, acts in rewrites(name, base, insts[b], rnd):
            st2, why2, _ = classify(O, insts[b], acts)
            if st2 == "clean":
                # the rewrite must also describe the same solution value-wise; only feasibility matters for the checker
                must_accept(b, acts, variant)
                ctx.nontrivial_case(dict(i=insts[b], a=acts))
            elif st2 == "ambiguous":
                ctx.ambiguous += 1
        for variant, acts in corruptions(name, base, insts[b], rnd, k=case.get("k", 8)):
            st2, why2, v2 = classify(O, insts[b], acts)
            if st2 == "violated":
                must_reject(b, acts, variant, why2, info=[list(x) for x in v2][:3])
                ctx.nontrivial_case(dict(i=insts[b], a=acts))
            elif st2 == "clean":
                must_accept(b, acts, "corruption_still_feasible:" + variant)
            else:
                ctx.ambiguous += 1
        if b == 0:
            ctx.sample(dict(case=case, base=base))

    # ---- whole-batch calls: all feasible -> accept; exactly one corrupted row -> raise -----------------
    if len(clean_rows) >= 2:
        idx = clean_rows
        sub = torch.cat([tdF[i : i + 1] for i in idx], 0)
        rows = [padded[i] for i in idx]
        exc = call(env, sub, rows)
        ctx.evaluation()
        ctx.count("c06_accept_checked")
        ctx.count("c06_batch_accept")
        if exc is not None:
            ctx.violation(sig_of(cfg, q="false_reject", variant="batch_of_feasible", exc=type(exc).__name__, batch=True, **label),
                          f"checker rejects a batch of mask-generated feasible solutions: {exc}", dict(actions=rows, insts=[insts[i] for i in idx][:2]))
        for _ in range(3):
            j = rnd.randrange(len(idx))
            b = idx[j]
            base = ep.executed(b)
            cands = corruptions(name, base, insts[b], rnd, k=4)
            rnd.shuffle(cands)
            for variant, acts in cands:
                st2, why2, v2 = classify(O, insts[b], acts)
                if st2 != "violated":
                    continue
                T = max(len(acts), len(rows[0]))
                if name in DEPOT_ENVS:
                    rows2 = pad_to([list(r) for r in rows], T)
                    rows2[j] = pad_to([acts], T)[0]
                elif len(acts) == len(rows[0]):
                    rows2 = [list(r) for r in rows]
                    rows2[j] = acts
                else:
                    continue
                exc = call(env, sub, rows2)
                ctx.evaluation()
                ctx.count("c06_reject_checked")
                ctx.count("c06_batch_reject")
                if exc is None:
                    ctx.violation(sig_of(cfg, q="false_accept", constraint="+".join(why2), batch=True, shape=features(name, insts[b], acts).get("shape"), **label),
                                  f"checker accepts a batch in which row {j} violates {why2} (corruption {variant})",
                                  dict(row=j, inst=insts[b], actions=rows2[j], oracle=[list(x) for x in v2][:3]))
                break

    # ---- through get_reward with check_solution=True ------------------------------------------------------
    if clean_rows:
        import rl4co.envs as E  # noqa: F401

        envc, _ = envzoo.make(cfg)
        envc.check_solution = True
        b = clean_rows[0]
        must_accept(b, padded[b], "get_reward_path", via_reward=True)
        ctx.count("c06_get_reward_path")
        base = ep.executed(b)
        for variant, acts in corruptions(name, base, insts[b], rnd, k=4):
            st2, why2, v2 = classify(O, insts[b], acts)
            if st2 == "violated":
                must_reject(b, acts, variant + "@get_reward", why2, via_reward=True, info=[list(x) for x in v2][:3])
                break


# ==========================================================================================
# improvement environments: the checker reads the stored best tour
# ==========================================================================================
def improve_case(ctx, case):
    import rl4co.envs as E

    cfg, B, seed = case["cfg"], case["B"], case["s"]
    n = cfg["n"]
    rnd = random.Random(seed)
    torch.manual_seed(seed)
    if cfg["env"] == "tsp_kopt":
        env = E.TSPkoptEnv(generator_params=dict(num_loc=n), k_max=cfg.get("k", 2))
        key = "rec_best"
    else:
        env = E.PDPRuinRepairEnv(generator_params=dict(num_loc=n))
        key = "rec_best"
    td = env.reset(batch_size=[B])
    for _ in range(case.get("steps", 3)):
        td.set("action", env._random_action(td))
        td = env.step(td)["next"]
    ctx.count("episodes")

    def single_cycle(rec):
        seen, cur = set(), 0
        for _ in range(len(rec)):
            if cur in seen:
                return False
            seen.add(cur)
            cur = rec[cur]
        return cur == 0 and len(seen) == len(rec)

    def order(rec):
        o, cur = [], 0
        for _ in range(len(rec)):
            o.append(cur)
            cur = rec[cur]
        return o

    def pdp_ok(rec):
        if not single_cycle(rec):
            return False
        o = order(rec)
        pos = {a: i for i, a in enumerate(o)}
        h = (len(rec) - 1) // 2
        return all(pos[p] < pos[p + h] for p in range(1, h + 1))

    ok_fn = single_cycle if cfg["env"] == "tsp_kopt" else pdp_ok
    N = td[key].shape[-1]
    for b in range(B):
        rec = td[key][b].tolist()
        if not ok_fn(rec):
            ctx.count("c06_improve_env_tour_invalid")  # C09's business
            continue
        row = td[b : b + 1].clone()
        acts = torch.zeros(1, 1, dtype=torch.long)
        try:
            env.check_solution_validity(row, acts)
            exc = None
        except AssertionError as e:
            exc = e
        ctx.evaluation()
        ctx.count("c06_accept_checked")
        ctx.nontrivial_case(dict(r=rec))
        if exc is not None:
            ctx.violation(dict(env=cfg["env"], q="false_reject", variant="env_tour"), f"checker rejects the env's own valid best tour: {exc}", dict(rec=rec))
        # corruptions of the successor array
        muts = []
        r1 = list(rec)
        i = rnd.randrange(N)
        r1[i] = i
        muts.append(("self_loop", r1))
        r2 = list(rec)
        i, j = rnd.sample(range(N), 2)
        r2[i], r2[j] = r2[j], r2[i]  # swapping two successors splits the cycle in two (or merges back): classify
        muts.append(("swap_successors", r2))
        r3 = list(rec)
        i = rnd.randrange(N)
        r3[i] = r3[r3[i]]  # skip a node: the skipped node is unreachable, its successor is duplicated
        muts.append(("skip_node", r3))
        if cfg["env"] != "tsp_kopt":
            o = order(rec)
            h = (N - 1) // 2
            p = rnd.randrange(1, h + 1)
            ip, idl = o.index(p), o.index(p + h)
            o[ip], o[idl] = o[idl], o[ip]
            r4 = [0] * N
            for k in range(N):
                r4[o[k]] = o[(k + 1) % N]
            muts.append(("delivery_before_pickup", r4))
        for variant, m in muts:
            if ok_fn(m):
                continue
            row2 = row.clone()
            row2[key] = torch.tensor([m])
            try:
                env.check_solution_validity(row2, acts)
                exc = None
            except (AssertionError, RuntimeError, IndexError) as e:
                exc = e
            ctx.evaluation()
            ctx.count("c06_reject_checked")
            ctx.count(f"c06_reject_improve_{variant}")
            ctx.nontrivial_case(dict(r=m))
            if exc is None:
                kind = "not_a_permutation" if sorted(m) != list(range(N)) else ("several_cycles" if not single_cycle(m) else "precedence")
                ctx.violation(dict(env=cfg["env"], q="false_accept", constraint=kind), f"checker accepts an invalid stored tour ({variant}: {kind})", dict(rec=m, base=rec))
