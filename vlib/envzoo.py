"""Env zoo: configurations -> real rl4co envs + the oracle that defines the problem.

A configuration is a JSON-able dict: {"env": <zoo key>, "n": size, ...}. make(cfg) returns
(env, oracle). instances(env, cfg, family, B, seed) returns the TensorDict handed to env.reset.
"""
from __future__ import annotations

import math

import torch

from vlib.oracles import routing as R

# envs whose reset state is sized from the instance handed over (ATSP, PDP, mTSP, MDCPDP size it from their generator: instances of
# another size are not supported by them)
SIZE_AGNOSTIC = {"tsp", "cvrp", "cvrptw", "sdvrp", "svrp", "op", "mtvrp"}  # PCTSP / SPCTSP size `visited` from the generator as well

MTVRP_PRESETS = ["cvrp", "ovrp", "vrpb", "vrpl", "vrptw", "ovrptw", "ovrpb", "ovrpl", "vrpbl", "vrpbtw", "vrpltw", "ovrpbl",
                 "ovrpbtw", "ovrpltw", "vrpbltw", "ovrpbltw", "all", "single_feat", "single_feat_otw"]


def routing_configs(sizes=(5, 8)):
    """All routing configurations of the zoo (C01..C04, C06)."""
    out = []
    for n in sizes:
        out += [
            dict(env="tsp", n=n),
            dict(env="tsp", n=n, dense=True),  # DenseRewardTSPEnv (step-wise reward variant, always in TorchRL mode)
            dict(env="atsp", n=n),
            dict(env="cvrp", n=n),
            dict(env="cvrptw", n=n, scale=False),
            dict(env="cvrptw", n=n, scale=True),
            dict(env="sdvrp", n=n),
            dict(env="cvrp", n=n, vcap=0.5),
            dict(env="cvrp", n=n, vcap=2.0),
            dict(env="sdvrp", n=n, vcap=2.0),
            dict(env="sdvrp", n=n, vcap=0.5),
            dict(env="cvrptw", n=n, scale=False, vcap=0.5),
            dict(env="svrp", n=n),
            dict(env="op", n=n),
            dict(env="pctsp", n=n),
            dict(env="spctsp", n=n),
            dict(env="pctsp", n=n, prize_required=0.5),
            dict(env="pctsp", n=n, prize_required=1.5),
            dict(env="spctsp", n=n, prize_required=0.5),
            dict(env="pdp", n=n + (n % 2), start_depot=False),
            dict(env="pdp", n=n + (n % 2), start_depot=True),
            dict(env="mtsp", n=n, cost_type="minmax", agents=(2, 3)),
            dict(env="mtsp", n=n, cost_type="sum", agents=(2, 3)),
            dict(env="mtsp", n=n, cost_type="minmax", agents=(1, 4)),  # batch rows differing widely in their number of agents
        ]
        for p in MTVRP_PRESETS:
            out.append(dict(env="mtvrp", n=n, preset=p))
        for p, sp in (("vrptw", 2.0), ("vrpbltw", 1.5), ("ovrptw", 0.5), ("vrpltw", 2.0), ("vrptw", 0.5), ("vrpbltw", 0.7)):
            out.append(dict(env="mtvrp", n=n, preset=p, speed=sp))
        ne = n + (n % 2)
        for rm, pm, dm, dep in (("minmax", "close", "L2", 2), ("minsum", "open", "L1", 3), ("lateness", "close", "L2", 3), ("minsum", "close", "L2", 1),
                                ("minmax", "open", "L2", 2), ("lateness", "open", "L1", 2), ("minsum", "close", "L1", 2), ("minmax", "close", "L1", 3)):
            out.append(dict(env="mdcpdp", n=ne, reward_mode=rm, problem_mode=pm, dist_mode=dm, depots=dep))
    return out


def make(cfg):
    import rl4co.envs as E

    name, n = cfg["env"], cfg["n"]
    kw = dict(check_solution=False)
    if cfg.get("torchrl"):
        kw["_torchrl_mode"] = True  # documented: step() returns the caller's TensorDict with the new state under "next"
    if name == "tsp":
        if cfg.get("dense"):
            from rl4co.envs.routing.tsp.env import DenseRewardTSPEnv

            return DenseRewardTSPEnv(generator_params=dict(num_loc=n)), R.TSP
        return E.TSPEnv(generator_params=dict(num_loc=n), **kw), R.TSP
    if name == "atsp":
        return E.ATSPEnv(generator_params=dict(num_loc=n, tmat_class=cfg.get("tmat", True)), **kw), R.ATSP
    if name == "cvrp":
        gp = dict(num_loc=n)
        if "capacity" in cfg:
            gp["capacity"] = cfg["capacity"]
        if "vcap" in cfg:  # non-default vehicle capacity (demands stay normalised by `capacity`)
            gp["vehicle_capacity"] = cfg["vcap"]
        return E.CVRPEnv(generator_params=gp, **kw), R.CVRP
    if name == "cvrptw":
        gp = dict(num_loc=n, scale=cfg.get("scale", False))
        if "vcap" in cfg:
            gp["vehicle_capacity"] = cfg["vcap"]
        return E.CVRPTWEnv(generator_params=gp, **kw), R.CVRPTW
    if name == "sdvrp":
        gp = dict(num_loc=n)
        if "vcap" in cfg:
            gp["vehicle_capacity"] = cfg["vcap"]
        return E.SDVRPEnv(generator_params=gp, **kw), R.SDVRP
    if name == "svrp":
        return E.SVRPEnv(generator_params=dict(num_loc=n), **kw), R.SVRP
    if name == "op":
        gp = dict(num_loc=n)
        if "max_length" in cfg:
            gp["max_length"] = cfg["max_length"]
        return E.OPEnv(generator_params=gp, **kw), R.OP
    if name in ("pctsp", "spctsp"):
        gp = dict(num_loc=n)
        if "prize_required" in cfg:  # non-default prize requirement (prizes are still drawn so that about n/4 total = 1)
            gp["prize_required"] = cfg["prize_required"]
        return (E.PCTSPEnv if name == "pctsp" else E.SPCTSPEnv)(generator_params=gp, **kw), R.PCTSP
    if name == "pdp":
        return E.PDPEnv(generator_params=dict(num_loc=n), force_start_at_depot=cfg.get("start_depot", False), **kw), R.PDP
    if name == "mtsp":
        a = cfg.get("agents", (2, 3))
        return E.MTSPEnv(generator_params=dict(num_loc=n, min_num_agents=a[0], max_num_agents=a[1]), cost_type=cfg.get("cost_type", "minmax"), **kw), R.MTSP
    if name == "mdcpdp":
        gp = dict(num_loc=n, num_depot=cfg.get("depots", 2), min_capacity=1, max_capacity=cfg.get("max_cap", 3), depot_mode=cfg.get("depot_mode", "multiple"))
        return E.MDCPDPEnv(generator_params=gp, reward_mode=cfg["reward_mode"], problem_mode=cfg["problem_mode"], dist_mode=cfg["dist_mode"], **kw), R.MDCPDP
    if name == "mtvrp":
        gp = dict(num_loc=n, variant_preset=cfg.get("preset", "all"))
        if "speed" in cfg:  # non-default vehicle speed (time = distance / speed); slow vehicles get a longer horizon
            gp.update(speed=cfg["speed"], max_time=4.6 if cfg["speed"] >= 1 else 10.0)
        return E.MTVRPEnv(generator_params=gp, **kw), R.MTVRP
    raise KeyError(name)


# ------------------------------------------------------------------------------------------
# instance families
def instances(env, cfg, family, B, seed):
    """family: 'gen' (the env's own generator), 'boundary' (hand-built, exact arithmetic,
    constraints met with equality), 'degenerate' (coincident nodes, extreme demands ...).
    Falls back to 'gen' when a family is not defined for the env."""
    torch.manual_seed(seed)
    td = env.generator(batch_size=[B])
    name = cfg["env"]
    g = torch.Generator().manual_seed(seed + 17)
    if family == "gen":
        return td
    n = cfg["n"]
    if family == "boundary":
        if name in ("cvrp", "sdvrp"):
            # dyadic demands k/32 chosen so that many subsets sum EXACTLY to capacity 1.0
            k = torch.randint(1, 17, (B, n), generator=g)
            pat = torch.tensor([16, 8, 8, 4, 4, 2, 2, 16, 8, 8])
            k[:, : n // 2] = pat.repeat(n // 20 + 1)[: n // 2]
            td["demand"] = k.float() / 32.0 * float(env.generator.vehicle_capacity)  # vcap is 0.5 / 1 / 2: stays dyadic
            grid = torch.randint(0, 9, (B, n + 1, 2), generator=g).float() / 8.0
            td["locs"], td["depot"] = grid[:, 1:], grid[:, 0]
            return td
        if name == "svrp":
            # discrete skill levels: requirements meet the technicians' levels with equality (allowed: skill >= requirement)
            T = td["techs"].shape[-2]
            td["techs"] = torch.arange(1, T + 1).float().reshape(1, T, 1).expand(B, T, 1).clone()
            td["skills"] = torch.randint(1, T + 1, (B, n, 1), generator=g).float()
            return td
        if name == "cvrptw":
            # hand-supplied service durations (the generator only emits zeros; Solomon-style data has them), kept
            # within the documented bound tw_end + d(i,depot) + duration <= max_time
            mt = td["time_windows"][:, 0, 1]  # depot window end = max_time (possibly scaled)
            d0 = (td["locs"] - td["depot"][:, None, :]).norm(dim=-1)
            slack = (mt[:, None] - d0 - td["time_windows"][:, 1:, 1]).clamp(min=0)
            dur = torch.rand(B, n, generator=g) * torch.minimum(slack, mt[:, None] * 0.15)
            if not cfg.get("scale", False):
                dur = dur.floor()
            td["durations"] = torch.cat((torch.zeros(B, 1), dur), 1)
            return td
        if name == "op":
            # integer grid, max_length exactly the length of some closed tour
            grid = torch.randint(0, 5, (B, n + 1, 2), generator=g).float()
            td["locs"], td["depot"] = grid[:, 1:] / 4.0, grid[:, 0] / 4.0
            # axis-parallel out-and-back to node 1 and 2: exactly representable
            L = []
            for b in range(B):
                pts = [td["depot"][b].tolist(), td["locs"][b, 0].tolist(), td["locs"][b, 1].tolist()]
                L.append(sum(abs(pts[i][0] - pts[(i + 1) % 3][0]) + abs(pts[i][1] - pts[(i + 1) % 3][1]) for i in range(3)))
            td["max_length"] = torch.tensor(L).clamp(min=0.5)
            return td
        if name in ("pctsp", "spctsp"):
            pr = torch.randint(1, 5, (B, n), generator=g).float() / 8.0
            td["deterministic_prize"] = pr
            td["stochastic_prize"] = pr.clone()
            return td
        if name == "mtvrp":
            lh, bh = td["demand_linehaul"], td["demand_backhaul"]
            k = torch.randint(1, 9, lh.shape, generator=g).float() / 16.0
            td["demand_linehaul"] = torch.where(lh > 0, k, lh)
            td["demand_backhaul"] = torch.where(bh > 0, k, bh)
            # time-window equality in exact arithmetic: the first customers sit on dyadic 3-4-5 points, so the distance
            # from the depot (placed at the origin) is exactly representable; their window ends exactly at that arrival
            # time (service may start AT the end of a window), so they are servable only as the first stop of a route
            tw = td["time_windows"]
            has_tw = torch.isfinite(tw[:, 1:, 1]).any(-1)
            if bool(has_tw.any()) and n >= 3:
                pts = torch.tensor([[0.375, 0.5], [0.1875, 0.25], [0.5, 0.375], [0.25, 0.1875]])[: max(1, min(4, n // 2))]
                locs = td["locs"].clone()
                sp = td["speed"].reshape(B)
                for b in range(B):
                    if not bool(has_tw[b]) or float(sp[b]) != 1.0:
                        continue
                    locs[b, 0] = 0.0
                    for j, p_ in enumerate(pts):
                        locs[b, 1 + j] = p_
                        d = float((p_ ** 2).sum().sqrt())
                        tw[b, 1 + j, 0] = 0.0
                        tw[b, 1 + j, 1] = d
                    # keep the rest reachable from the new depot position: open their windows wide
                    tw[b, 1 + len(pts):, 0] = 0.0
                    tw[b, 1 + len(pts):, 1] = tw[b, 0, 1] - 1.5
                td["locs"], td["time_windows"] = locs, tw
                if "distance_limit" in td.keys():
                    dl = td["distance_limit"].clone()
                    dl[torch.isfinite(dl)] = 3.5  # the relocated depot must not make round trips exceed the limit
                    td["distance_limit"] = dl
            return td
        return td
    if family == "split":
        # SDVRP: dyadic demands between 3/8 and 7/8 of the vehicle: almost every route ends with a partial delivery, customers
        # are revisited with little or much free capacity (exact arithmetic: every admissible history is decidable)
        if name == "sdvrp":
            k = torch.randint(3, 8, (B, n), generator=g)
            td["demand"] = k.float() / 8.0 * float(env.generator.vehicle_capacity)
            grid = torch.randint(0, 9, (B, n + 1, 2), generator=g).float() / 8.0
            td["locs"], td["depot"] = grid[:, 1:], grid[:, 0]
        return td
    if family == "chain":
        # MTVRP with windows: the first linehaul customers form a chain depot -> c1 -> c2 -> c3 whose windows close 2e-3 after
        # the exact arrival along the chain (travel = distance / speed, service times added): the chain is feasible with a
        # margin above the oracle's band, and any clock that runs ahead or behind by more than that hides or admits it
        if name == "mtvrp" and n >= 3:
            tw, locs = td["time_windows"].clone(), td["locs"]
            has_tw = torch.isfinite(tw[:, 1:, 1]).any(-1)
            for b in range(B):
                if not bool(has_tw[b]):
                    continue
                sp = float(td["speed"].reshape(B)[b])
                lh, bh = td["demand_linehaul"][b], td["demand_backhaul"][b]
                cand = [j for j in range(1, n + 1) if float(lh[j]) > 0 and float(bh[j]) == 0]
                cand = sorted(cand, key=lambda j: float(lh[j]))[:3]
                if len(cand) < 2:
                    continue
                t, cur = 0.0, 0
                for j in cand:
                    t = t + float((locs[b, cur] - locs[b, j]).norm()) / sp
                    tw[b, j, 0], tw[b, j, 1] = 0.0, t + 2e-3
                    t = t + float(td["service_time"][b, j])
                    cur = j
            td["time_windows"] = tw
            return td
        return td
    if family == "twins":
        # near-coincident customer pairs (a, a') with a tight window on a': a opens late (every vehicle waits for it), a' closes
        # 0.6*delta after a's service ends while a' lies delta away from a - so a' is infeasible right after a by a margin
        # of 0.4*delta, which is above the oracle's band and far above float32 rounding of a correct distance
        if name == "cvrptw" and not cfg.get("scale", False) and n >= 4:
            tw, locs = td["time_windows"].clone(), td["locs"].clone()
            delta = 0.09
            for k in range(min(3, n // 2)):
                a, a2 = 2 * k, 2 * k + 1
                ang = torch.rand(B, generator=g) * 6.2831853
                locs[:, a2] = locs[:, a] + delta * torch.stack((ang.cos(), ang.sin()), 1)
                Ta = 200.0 + 10.0 * k
                tw[:, a + 1, 0], tw[:, a + 1, 1] = Ta, Ta + 50.0
                tw[:, a2 + 1, 0], tw[:, a2 + 1, 1] = 0.0, Ta + float(td["durations"][0, a + 1]) + 0.6 * delta
            td["locs"], td["time_windows"] = locs, tw
            return td
        if name == "mtvrp" and n >= 4:
            tw, locs = td["time_windows"].clone(), td["locs"].clone()
            has_tw = torch.isfinite(tw[:, 1:, 1]).any(-1)
            delta = 6e-4
            for b in range(B):
                if not bool(has_tw[b]):
                    continue
                sp = float(td["speed"].reshape(B)[b])
                for k in range(min(2, n // 2)):
                    a, a2 = 1 + 2 * k, 2 + 2 * k  # locs carry the depot at index 0
                    ang = float(torch.rand(1, generator=g)) * 6.2831853
                    locs[b, a2] = locs[b, a] + delta * torch.tensor([math.cos(ang), math.sin(ang)])
                    Ta = 1.0 + 0.1 * k
                    tw[b, a, 0], tw[b, a, 1] = Ta, Ta + 0.5
                    tw[b, a2, 0], tw[b, a2, 1] = 0.0, Ta + float(td["service_time"][b, a]) + 0.6 * delta / sp
            td["locs"], td["time_windows"] = locs, tw
            return td
        return td
    if family == "degenerate":
        if "locs" in td.keys() and td["locs"].dim() == 3:
            locs = td["locs"].clone()
            locs[:, 1] = locs[:, 0]  # coincident nodes
            if "depot" in td.keys() and td["depot"].dim() == 2:
                locs[:, -1] = td["depot"]  # a customer on the depot
            if name not in ("cvrptw", "mtvrp"):  # windows are built from the geometry there
                td["locs"] = locs
        if name in ("cvrp", "sdvrp"):
            td["demand"][: B // 2] = float(env.generator.vehicle_capacity)  # every customer fills the vehicle
        if name in ("pctsp", "spctsp"):
            # "poor" instances: all prizes together stay below the requirement, so the only way to finish is to visit every
            # customer (then the depot opens); mixed in one batch with ordinary rows that go home early
            h = max(1, B // 2)
            for key in ("deterministic_prize", "stochastic_prize"):
                pr = td[key].clone()
                tot = pr[:h].sum(-1, keepdim=True).clamp(min=1e-6)
                pr[:h] = pr[:h] / tot * (0.3 + 0.6 * torch.rand(h, 1, generator=g))
                td[key] = pr
        if name == "svrp":
            # hand-supplied crews that are NOT listed by increasing skill (only the last technician has to be the most skilled one, so
            # that every customer stays servable): route k is driven by technician k as the instance lists them
            te = td["techs"].clone()
            T_ = te.shape[1]
            if T_ >= 3:
                for b_ in range(B):
                    perm = torch.randperm(T_ - 1, generator=g)
                    te[b_, : T_ - 1] = te[b_, perm]
                td["techs"] = te
        if name == "op":
            # a third of the rows cannot reach any customer within their budget (shorter than the nearest round trip): the only
            # admissible tour is the empty one, next to ordinary rows in the same batch
            k = max(1, B // 3)
            l2 = td["locs"].clone()
            l2[:k, -1] = (td["depot"][:k] + 0.31) % 1.0  # (these rows keep no customer on the depot)
            td["locs"] = l2
            d0 = (td["locs"] - td["depot"][:, None, :]).norm(dim=-1).min(-1).values
            ml = td["max_length"].clone()
            ml[:k] = (1.5 * d0[:k]).clamp(min=1e-3)
            td["max_length"] = ml
        if name == "mtsp":
            td["num_agents"][: B // 2] = 1
            td["num_agents"][B // 2 :] = n - 1
        return td
    raise KeyError(family)


def chooser_mix(B, seed, pool=None):
    """per-row chooser assignment making rows of one batch finish at very different steps."""
    from vlib.episode import CHOOSERS

    pool = pool or CHOOSERS
    g = torch.Generator().manual_seed(seed)
    idx = torch.randint(0, len(pool), (B,), generator=g).tolist()
    names = [pool[i] for i in idx]
    if B >= 2:
        names[0] = "depot_whenever"
        names[1] = "avoid_depot"
    return names


# ------------------------------------------------------------------------------------------
# non-routing configurations
def sched_configs(tier="quick"):
    out = []
    shapes = [(3, 2, 1, 3), (4, 3, 2, 4), (6, 4, 1, 5)] if tier == "quick" else [(2, 2, 1, 2), (3, 2, 1, 3), (4, 3, 2, 4), (6, 4, 1, 5), (10, 5, 4, 6), (8, 6, 1, 6)]
    for (j, m, lo, hi) in shapes:
        for mno in (True, False):
            out.append(dict(env="fjsp", jobs=j, mas=m, min_ops=lo, max_ops=hi, mask_no_ops=mno, n=j * hi))
            out.append(dict(env="jssp", jobs=j, mas=m, min_ops=lo, max_ops=min(hi, m), one2one=False, mask_no_ops=mno, n=j * hi))
        out.append(dict(env="jssp", jobs=j, mas=m, one2one=True, mask_no_ops=True, n=j * m))
        out.append(dict(env="jssp", jobs=j, mas=m, one2one=True, mask_no_ops=False, n=j * m))
    ff = [(2, 2, 3), (2, 3, 4), (3, 2, 5)] if tier == "quick" else [(2, 2, 3), (2, 3, 4), (3, 2, 5), (3, 3, 6), (2, 4, 6)]
    for (s, k, j) in ff:
        for flat in (True, False):
            out.append(dict(env="ffsp", stages=s, mas=k, jobs=j, flatten=flat, n=j * s))
    # unusual magnitudes: wide spread of unrelated-machine run times on tiny flow shops (sentinels in the schedule table must
    # never win the makespan), and long horizons (processing times in a fine time unit: makespans beyond 10^4)
    out.append(dict(env="ffsp", stages=2, mas=2, jobs=3, flatten=True, n=6, tmax=3, tmin=0))  # zero run times (documented min_time=0)
    out.append(dict(env="ffsp", stages=2, mas=3, jobs=4, flatten=False, n=8, tmax=2, tmin=0))
    out.append(dict(env="ffsp", stages=2, mas=2, jobs=2, flatten=True, n=4, tmax=80))
    out.append(dict(env="ffsp", stages=2, mas=3, jobs=2, flatten=False, n=4, tmax=200))
    out.append(dict(env="fjsp", jobs=4, mas=2, min_ops=2, max_ops=3, mask_no_ops=True, n=12, pmax=6000))
    out.append(dict(env="jssp", jobs=4, mas=3, one2one=True, mask_no_ops=True, n=12, pmax=6000))
    out.append(dict(env="jssp", jobs=3, mas=2, min_ops=1, max_ops=2, one2one=False, mask_no_ops=False, n=6, pmax=9000))
    # processing times of ~1e5 that differ by single units (times given in a fine unit): completion events closer together than
    # any relative tolerance of the clock value
    out.append(dict(env="fjsp", jobs=4, mas=3, min_ops=2, max_ops=3, mask_no_ops=True, n=12, pmin=100000, pmax=100003))
    out.append(dict(env="jssp", jobs=4, mas=3, one2one=True, mask_no_ops=False, n=12, pmin=100000, pmax=100003))
    # production sizes (the generators' defaults and above)
    out.append(dict(env="fjsp", jobs=10, mas=5, min_ops=4, max_ops=6, mask_no_ops=True, n=60, pmax=20))
    out.append(dict(env="jssp", jobs=10, mas=6, one2one=True, mask_no_ops=True, n=60, pmax=99))
    out.append(dict(env="ffsp", stages=3, mas=4, jobs=12, flatten=True, n=36, tmax=10))
    out.append(dict(env="smtwtp", n=50))
    # documented constructor options of the job-shop envs that no other config sets: step-wise reward (change of the lower bound
    # of the makespan) and the env's own mask assertion
    out.append(dict(env="fjsp", jobs=4, mas=3, min_ops=1, max_ops=3, mask_no_ops=True, n=12, stepwise=True))
    out.append(dict(env="fjsp", jobs=3, mas=2, min_ops=2, max_ops=3, mask_no_ops=False, n=9, stepwise=True, check_mask=True))
    out.append(dict(env="jssp", jobs=4, mas=3, one2one=True, mask_no_ops=True, n=12, stepwise=True))
    out.append(dict(env="jssp", jobs=3, mas=3, min_ops=1, max_ops=3, one2one=False, mask_no_ops=False, n=9, check_mask=True))
    for n in ((4, 7) if tier == "quick" else (3, 4, 7, 10, 20)):
        out.append(dict(env="smtwtp", n=n))
    return out


def select_configs(tier="quick"):
    out = []
    for n, k in ([(6, 2), (8, 3), (10, 10), (7, 1)] if tier == "quick" else [(6, 2), (8, 3), (10, 10), (7, 1), (20, 5), (30, 7)]):
        out.append(dict(env="flp", n=n, k=k))
    # more than 25 points (pairwise-distance helpers switch algorithm with the size) and the default size
    out.append(dict(env="flp", n=40, k=4))
    out.append(dict(env="flp", n=40, k=3, box=(100.0, 101.0)))  # coordinates far from the origin (cancellation in distance helpers)
    out.append(dict(env="flp", n=300, k=5))  # above block / chunk sizes of pairwise helpers, not a multiple of 256
    if tier != "quick":
        out.append(dict(env="flp", n=100, k=10))
    out.append(dict(env="flp", n=8, k=3, dist="normal", std=1.0))
    out.append(dict(env="flp", n=12, k=2, dist="normal", std=2.0))
    for items, sets, k in ([(8, 5, 2), (12, 6, 3), (10, 4, 4), (9, 5, 1)] if tier == "quick" else [(8, 5, 2), (12, 6, 3), (10, 4, 4), (9, 5, 1), (40, 15, 5)]):
        out.append(dict(env="mcp", n=sets, items=items, k=k))
    out.append(dict(env="mcp", n=100, items=200, k=10, min_size=5, max_size=15))  # the generator's default size
    # empty sets (documented: min_size=0; the membership matrix is zero padded) and more sets to choose than there are non-empty ones
    out.append(dict(env="mcp", n=7, items=6, k=6, min_size=0, max_size=1))
    out.append(dict(env="mcp", n=6, items=8, k=4, min_size=0, max_size=2))
    for size, kmin, kmax, dec in ([(4, 1, 4, 3), (5, 3, 10, 6), (4, 5, 6, 10)] if tier == "quick" else [(4, 1, 4, 3), (5, 3, 10, 6), (4, 5, 6, 10), (6, 5, 20, 12)]):
        out.append(dict(env="dpp", n=size * size, size=size, kmin=kmin, kmax=kmax, decaps=dec))
    # MDPPEnv always builds a default DPPGenerator first (default files, 10x10, max_decaps=20) and keeps ITS size /
    # max_decaps: it is only self-consistent with the default shape, which is therefore what is exercised
    for kmin, kmax in ([(1, 10), (40, 50)] if tier == "quick" else [(1, 10), (40, 50), (20, 30), (1, 50)]):
        out.append(dict(env="mdpp", n=100, size=10, kmin=kmin, kmax=kmax, decaps=20, reward_type="minmax"))
        out.append(dict(env="mdpp", n=100, size=10, kmin=kmin, kmax=kmax, decaps=20, reward_type="meansum"))
    return out


_DPP_DIRS = {}


def dpp_data_dir(size, default_names=False):
    """Synthetic PDN data (the real chip files are not available offline): complex symmetric,
    diagonally dominant impedance matrices so the decap simulator's inverse exists."""
    import atexit
    import os
    import shutil
    import tempfile

    import numpy as np

    key = (size, default_names)
    if key in _DPP_DIRS:
        return _DPP_DIRS[key]
    root = tempfile.mkdtemp(prefix=f"verif-dpp{size}-")
    atexit.register(shutil.rmtree, root, True)
    d = os.path.join(root, "data", "dpp") if default_names else root
    os.makedirs(d, exist_ok=True)
    rs = np.random.RandomState(1234 + size)
    F, n = 3, size * size
    a = rs.rand(F, n, n) + 1j * rs.rand(F, n, n)
    a = (a + a.transpose(0, 2, 1)) / 2
    for f in range(F):
        a[f] += np.eye(n) * (n + 1.0)
    names = ("10x10_pkg_chip.npy", "01nF_decap.npy", "freq_201.npy") if default_names else ("chip.npy", "decap.npy", "freq.npy")
    np.save(os.path.join(d, names[0]), a.astype(np.complex64))
    np.save(os.path.join(d, names[1]), (rs.rand(F, 1, 1) + 0.5).astype(np.float32))
    np.save(os.path.join(d, names[2]), (np.arange(1, F + 1) * 1e8).astype(np.float32))
    _DPP_DIRS[key] = root if default_names else d
    return _DPP_DIRS[key]


def enter_default_dpp_cwd():
    """MDPPEnv cannot be constructed without 'data/dpp/<default files>' relative to the cwd (it builds a
    default DPPGenerator unconditionally, which otherwise tries to download). The harness therefore runs
    MDPP cases from a scratch cwd holding synthetic default-named 10x10 files."""
    import os

    root = dpp_data_dir(10, default_names=True)
    os.chdir(root)
    return os.path.join(root, "data", "dpp")


def _js_opts(cfg):
    o = {}
    if cfg.get("stepwise"):
        o["stepwise_reward"] = True
    if cfg.get("check_mask"):
        o["check_mask"] = True
    return o


def make_other(cfg):
    import rl4co.envs as E

    name = cfg["env"]
    kw = dict(_torchrl_mode=True) if cfg.get("torchrl") else {}
    if name == "fjsp":
        gp = dict(num_jobs=cfg["jobs"], num_machines=cfg["mas"], min_ops_per_job=cfg["min_ops"], max_ops_per_job=cfg["max_ops"], max_processing_time=cfg.get("pmax", 9), **({"min_processing_time": cfg["pmin"]} if "pmin" in cfg else {}))
        if "same_mean" in cfg:  # documented generator switches no default config sets: independent processing times, eligibility range
            gp["same_mean_per_op"] = cfg["same_mean"]
        if "max_elig" in cfg:
            gp["max_eligible_ma_per_op"] = cfg["max_elig"]
        if "min_elig" in cfg:
            gp["min_eligible_ma_per_op"] = cfg["min_elig"]
        return E.FJSPEnv(generator_params=gp, mask_no_ops=cfg["mask_no_ops"], **_js_opts(cfg), **kw)
    if name == "jssp":
        gp = dict(num_jobs=cfg["jobs"], num_machines=cfg["mas"], max_processing_time=cfg.get("pmax", 9), one2one_ma_map=cfg["one2one"], **({"min_processing_time": cfg["pmin"]} if "pmin" in cfg else {}))
        if not cfg["one2one"]:
            gp.update(min_ops_per_job=cfg["min_ops"], max_ops_per_job=cfg["max_ops"])
        return E.JSSPEnv(generator_params=gp, mask_no_ops=cfg["mask_no_ops"], **_js_opts(cfg), **kw)
    if name == "ffsp":
        return E.FFSPEnv(generator_params=dict(num_stage=cfg["stages"], num_machine=cfg["mas"], num_job=cfg["jobs"], flatten_stages=cfg["flatten"], min_time=cfg.get("tmin", 1), max_time=cfg.get("tmax", 6)), **kw)
    if name == "smtwtp":
        return E.SMTWTPEnv(generator_params=dict(num_job=cfg["n"]), **kw)
    if name == "flp":
        gp = dict(num_loc=cfg["n"], to_choose=cfg["k"])
        if cfg.get("box"):
            gp.update(min_loc=cfg["box"][0], max_loc=cfg["box"][1])
        if cfg.get("dist") == "normal":  # coordinates outside the nominal [min_loc, max_loc] box (documented sampler option)
            gp.update(loc_distribution="normal", loc_mean=0.5, loc_std=cfg.get("std", 1.0))
        return E.FLPEnv(generator_params=gp, **kw)
    if name == "mcp":
        return E.MCPEnv(generator_params=dict(num_items=cfg["items"], num_sets=cfg["n"], n_sets_to_choose=cfg["k"], min_size=cfg.get("min_size", 2), max_size=cfg.get("max_size", 4)), **kw)
    if name == "dpp":
        gp = dict(data_dir=dpp_data_dir(cfg["size"]), chip_file="chip.npy", decap_file="decap.npy", freq_file="freq.npy",
                  num_keepout_min=cfg["kmin"], num_keepout_max=cfg["kmax"], max_decaps=cfg["decaps"])
        return E.DPPEnv(generator_params=gp)
    if name == "mdpp":
        d = enter_default_dpp_cwd()
        gp = dict(data_dir=d, num_keepout_min=cfg["kmin"], num_keepout_max=cfg["kmax"], max_decaps=cfg["decaps"], num_probes_min=2, num_probes_max=5)
        return E.MDPPEnv(generator_params=gp, reward_type=cfg.get("reward_type", "minmax"))
    raise KeyError(name)
