"""C04 — metamorphic solo-vs-context monitor (environment level).

For one pool of instances of a real env, scripts (mask-confined action sequences) are recorded from
a batched run under hostile choosers. The SOLO execution of (instance, script) at batch size 1 with
no padding is the reference; every other execution context of the same (instance, script) must show
the same masks at every step up to the finishing step, the same finishing step and the same reward:

  pool      the recording run itself (position b among m strangers, natural padding by slower rows)
  reversed  the pool in reverse order (position change), scripted, other padding actions
  pair      [target, slowest stranger] and [slowest stranger, target]           (B = 2)
  subset    batches of 3 and 7 rows containing the target at a random position
  copies    [target, target, target] each copy following a different script of that same instance

Stepping a batch after ALL of its rows have finished is not part of the property ("padding induced by slower
batch-mates") and is not exercised: FFSP leaves a stale mask there and SVRP runs out of technicians.
"""
from __future__ import annotations

import torch

from vlib import envzoo
from vlib.episode import run_episode
from vlib.sweep import other_choosers, sig_of

ROUTING = {"tsp", "atsp", "cvrp", "cvrptw", "sdvrp", "svrp", "op", "pctsp", "spctsp", "pdp", "mtsp", "mdcpdp", "mtvrp"}


def build(cfg, family, m, seed):
    name = cfg["env"]
    if name in ROUTING:
        env, _ = envzoo.make(cfg)
        td = envzoo.instances(env, cfg, "gen" if family == "mixed_scale" else family, m, seed)
        if family == "mixed_scale":
            # batch-mates of a very different magnitude: every other row lives on a 1000 x 1000 map (documented min_loc / max_loc /
            # per-instance max_length); nothing a row is offered may depend on the scale of its neighbours
            big = torch.arange(m) % 2 == 1
            for k_ in ("locs", "depot"):
                if k_ in td.keys():
                    v_ = td[k_].clone()
                    v_[big] = v_[big] * 1000.0
                    td[k_] = v_
            if "max_length" in td.keys():
                ml_ = td["max_length"].clone()
                ml_[big] = ml_[big] * 1000.0
                # the small rows get a budget that leaves a slack of 5e-4 on the tour depot -> c1 -> c2 -> depot: far above the env's
                # documented 1e-6 margin, far below one thousandth of a neighbour's budget
                for b_ in range(m):
                    if not bool(big[b_]) and td["locs"].shape[1] >= 2:
                        p0, p1, p2 = td["depot"][b_].double(), td["locs"][b_, 0].double(), td["locs"][b_, 1].double()
                        ml_[b_] = float((p0 - p1).norm() + (p1 - p2).norm() + (p2 - p0).norm()) + 5e-4
                td["max_length"] = ml_
        names = envzoo.chooser_mix(m, seed)
    else:
        env = envzoo.make_other(cfg)
        torch.manual_seed(seed)
        td = env.generator(batch_size=[m])
        if family == "mixed_quota" and name in ("flp", "mcp"):
            key = "to_choose" if name == "flp" else "n_sets_to_choose"
            q = td[key].clone()
            q.reshape(m, -1)[: m // 2] = max(1, cfg["k"] - 1)
            td[key] = q
        names = other_choosers(cfg, m, seed)
    return env, td, names


def rows(td, idx):
    return torch.cat([td[i : i + 1] for i in idx], 0).clone()


def observe(ep, b):
    """what C04 compares for row b of an episode: masks before each executed action, finishing step, reward."""
    f = ep.finish_step(b)
    upto = len(ep.masks) if f is None else f + 1
    masks = [ep.masks[t][b].clone() for t in range(upto)]
    rew = None
    if ep.reward is not None and ep.reward.numel() == ep.B:
        rew = float(ep.reward.reshape(ep.B, -1)[b, 0])
    elif ep.reward is not None:
        rew = ("shape", tuple(ep.reward.shape))
    steprew = None
    if getattr(ep, "states", None) and f is not None and all("reward" in st for st in ep.states[: f + 1]) and len(ep.states) > f:
        # stepwise-reward configurations: the reward written to the state after each of the row's own steps
        steprew = [float(ep.states[t]["reward"][b].reshape(-1)[0]) for t in range(f + 1)]
    return dict(masks=masks, fin=f, reward=rew, steprew=steprew, pad=0 if f is None else len(ep.actions) - 1 - f, acts=ep.executed(b),
                reward_exc=None if ep.reward_exc is None else f"{type(ep.reward_exc).__name__}: {str(ep.reward_exc)[:150]}")


def compare(ctx, cfg, context, ref, obs, inst_plain, script, B, pos, family):
    """ref: solo observation; obs: observation in `context`."""
    ctx.evaluation()
    ctx.count("c04_context_comparisons")
    ctx.count(f"c04_ctx_{context}")
    padded = obs["pad"] > 0
    if padded:
        ctx.count("c04_padded_rows")
        if obs["pad"] >= 2:
            ctx.count("c04_rows_padded>=2")
    detail = dict(context=context, B=B, position=pos, script=script, inst=inst_plain, padding=obs["pad"])
    base = dict(context="batched", padded=padded, family=family)
    for t, (ma, mb) in enumerate(zip(ref["masks"], obs["masks"])):
        if ma.shape != mb.shape or not torch.equal(ma, mb):
            detail.update(step=t, solo_mask=ma.int().tolist(), ctx_mask=mb.int().tolist())
            ctx.violation(sig_of(cfg, q="mask", **base), f"[{context}] mask before step {t} differs from the solo execution of the same (instance, actions)", detail)
            return False
    if obs["fin"] != ref["fin"]:
        ctx.violation(sig_of(cfg, q="finish", **base), f"[{context}] finishing step {obs['fin']} != solo {ref['fin']} for the same (instance, actions)", detail)
        return False
    sa, sb = ref.get("steprew"), obs.get("steprew")
    if sa is not None and sb is not None:
        ctx.count("c04_step_reward_rows")
        for t, (x, y) in enumerate(zip(sa, sb)):
            if not (abs(x - y) <= 1e-5 * max(1.0, abs(x))):
                detail.update(step=t, solo_step_reward=x, ctx_step_reward=y)
                ctx.violation(sig_of(cfg, q="step_reward", **base), f"[{context}] the reward written after step {t} is {y}, in the solo execution of the same (instance, actions) it is {x}", detail)
                return False
    ra, rb = ref["reward"], obs["reward"]
    if obs["reward_exc"] is not None and ref["reward_exc"] is None:
        ctx.violation(sig_of(cfg, q="reward_raises", **base), f"[{context}] get_reward raised {obs['reward_exc']} (solo did not)", detail)
        return False
    if isinstance(ra, float) and isinstance(rb, float):
        if not (abs(ra - rb) <= 1e-5 * max(1.0, abs(ra))):
            detail.update(solo_reward=ra, ctx_reward=rb)
            ctx.violation(sig_of(cfg, q="reward", **base), f"[{context}] reward {rb} != solo reward {ra} for the same (instance, actions); padding steps {obs['pad']}", detail)
            return False
    elif ra != rb:
        detail.update(solo_reward=ra, ctx_reward=rb)
        ctx.violation(sig_of(cfg, q="reward_shape", **base), f"[{context}] reward {rb} vs solo {ra}", detail)
        return False
    return True


def plain_row(td, b):
    out = {}
    for k in td.keys():
        v = td[k][b]
        if v.numel() <= 400:
            out[str(k)] = v.tolist()
    return out


_SNAP = {"keys": None}  # per-step state keys recorded for the case at hand (stepwise-reward configurations: "reward")


def solo(env, td, b, script, gen, extra_pad=0, pad_chooser=None):
    return run_episode(env, td[b : b + 1].clone(), ["first_true"], gen, max_steps=len(script) + extra_pad + 1, scripted=[list(script)],
                       pad_chooser=pad_chooser, extra_pad_steps=extra_pad, snap_keys=_SNAP["keys"])


def context_case(ctx, case):
    cfg, family, m, seed = case["cfg"], case.get("family", "gen"), case["B"], case["s"]
    env, td, names = build(cfg, family, m, seed)
    gen = torch.Generator().manual_seed(seed)
    max_steps = case.get("max_steps", 6 * cfg["n"] + 30 if cfg["env"] in ROUTING else 2000)
    _SNAP["keys"] = ["reward"] if cfg.get("stepwise") else None
    ep = run_episode(env, td, names, gen, max_steps=max_steps, snap_keys=_SNAP["keys"])
    ctx.count("episodes")
    ctx.count("env_steps", len(ep.actions))
    if ep.error is not None or hasattr(ep, "dead_end_at"):
        ctx.count("c04_skipped_incomplete_pool")  # dead ends as such are C02's business ...
        # ... but masks that differ between the batch and the same prefix executed alone are C04's: every unfinished row
        # of the broken pool is replayed alone up to the step where the pool stopped and its masks are compared step by step
        T = len(ep.actions)
        pool_masks = list(ep.masks) + [ep.final_mask]
        for b in range(m):
            if T > 0 and bool(ep.done_after[T - 1][b]):
                continue
            prefix = [int(ep.actions[k][b]) for k in range(T)]
            try:
                se = run_episode(env, td[b : b + 1].clone(), ["first_true"], gen, max_steps=T, scripted=[prefix], get_reward=False)
            except Exception:
                continue
            ctx.count("c04_broken_pool_solo_replays")
            solo_masks = list(se.masks) + [se.final_mask]
            for t in range(min(len(solo_masks), len(pool_masks))):
                if t > 0 and t - 1 < len(se.done_after) and bool(se.done_after[t - 1][0]):
                    break
                ctx.evaluation()
                pm, sm = pool_masks[t][b].reshape(-1), solo_masks[t][0].reshape(-1)
                if pm.shape != sm.shape or not torch.equal(pm, sm):
                    ctx.violation(sig_of(cfg, q="mask", context="batched", padded=False, family=family),
                                  f"after the prefix {prefix[:t]} the row is offered {torch.nonzero(pm).flatten().tolist()} inside a batch of {m} but {torch.nonzero(sm).flatten().tolist()} when executed alone",
                                  dict(inst=plain_row(td, b), script=prefix[:t]))
                    return
        return
    scripts = [ep.executed(b) if ep.finish_step(b) is not None else None for b in range(m)]
    rng = __import__("random").Random(seed)

    # ---- solo references ------------------------------------------------------------------
    refs = [None] * m
    for b in range(m):
        if scripts[b] is None:
            continue
        try:
            se = solo(env, td, b, scripts[b], gen)
        except Exception as e:
            ctx.evaluation()
            ctx.violation(sig_of(cfg, q="solo_raises", exc=type(e).__name__), f"stepping the instance alone (batch size 1) raised {type(e).__name__}: {str(e)[:200]}",
                          dict(inst=plain_row(td, b), script=scripts[b]))
            continue
        ctx.count("c04_solo_runs")
        if se.error is not None:
            ctx.evaluation()
            ctx.violation(sig_of(cfg, q="solo_raises", exc=type(se.error).__name__), f"stepping the instance alone (batch size 1) raised {type(se.error).__name__}: {str(se.error)[:200]}",
                          dict(inst=plain_row(td, b), script=scripts[b]))
            continue
        r = observe(se, 0)
        if r["fin"] != len(scripts[b]) - 1 or hasattr(se, "dead_end_at") or hasattr(se, "script_infeasible"):
            # the solo run follows the recorded script; not finishing exactly there is a difference w.r.t. the pool run
            ctx.evaluation()
            ctx.violation(sig_of(cfg, q="finish", context="batched", padded=False, family=family),
                          f"solo execution of a script recorded in a batch does not finish at the same step (batch: {len(scripts[b]) - 1}, solo: {r['fin']}; solo mask refused a recorded action: {hasattr(se, 'script_infeasible')})",
                          dict(inst=plain_row(td, b), script=scripts[b]))
            continue
        if se.reward_exc is not None:
            ctx.evaluation()
            ctx.violation(sig_of(cfg, q="solo_raises", exc=type(se.reward_exc).__name__, where="get_reward"), f"get_reward at batch size 1 raised {r['reward_exc']}",
                          dict(inst=plain_row(td, b), script=scripts[b]))
            continue
        refs[b] = r

    def check(context, ep2, row, b, script, B, pos):
        ok = compare(ctx, cfg, context, refs[b], observe(ep2, row), plain_row(td, b), script, B, pos, family)
        ctx.nontrivial_case(dict(c=context, i=plain_row(td, b), s=script, B=B, p=pos))
        return ok

    good = [b for b in range(m) if refs[b] is not None]
    if not good:
        return
    # ---- context: the recording pool itself ----------------------------------------------------
    for b in good:
        check("pool", ep, b, b, scripts[b], m, b)
    ctx.sample(dict(case=case, row0_script=scripts[good[0]], solo_reward=refs[good[0]]["reward"], pool_padding=observe(ep, good[0])["pad"]))

    def scripted_run(idx, scr, pad_chooser, extra=0):
        sub = rows(td, idx)
        return run_episode(env, sub, ["first_true"] * len(idx), gen, max_steps=max_steps, scripted=[list(s) for s in scr], pad_chooser=pad_chooser, extra_pad_steps=extra, snap_keys=_SNAP["keys"])

    if len(good) < 2:
        return
    # ---- context: reversed pool, other padding actions -------------------------------------------
    idx = list(reversed(good))
    e2 = scripted_run(idx, [scripts[i] for i in idx], "last_true")
    if e2.error is None:
        for pos, b in enumerate(idx):
            check("reversed", e2, pos, b, scripts[b], len(idx), pos)
    else:
        ctx.violation(sig_of(cfg, q="ctx_raises", context="batched", exc=type(e2.error).__name__), f"[reversed] env.step raised {e2.error}", None)

    # ---- context: env object reuse with a growing batch (object-level state such as FFSP's index tables) ------
    idx = good + good
    e7 = scripted_run(idx, [scripts[i] for i in idx], "first_true")
    if e7.error is None:
        for pos, b in enumerate(idx):
            if pos >= len(good):  # the second half sits at positions the first reset never had
                check("doubled", e7, pos, b, scripts[b], len(idx), pos)
    env_keep = env
    try:
        env, _, _ = build(cfg, family, m, seed)  # fresh object: first reset solo, second reset the pool
        solo(env, td, good[0], scripts[good[0]], gen)
        e8 = scripted_run(good, [scripts[i] for i in good], "last_true")
        if e8.error is None:
            for pos, b in enumerate(good):
                check("solo_then_batch", e8, pos, b, scripts[b], len(good), pos)
    finally:
        env = env_keep

    slow = max(good, key=lambda b: len(scripts[b]))
    targets = rng.sample(good, min(case.get("targets", 3), len(good)))
    for b in targets:
        # ---- pair with the slowest stranger, both orders ---------------------------------------
        if b != slow:
            for order in ([b, slow], [slow, b]):
                e3 = scripted_run(order, [scripts[i] for i in order], rng.choice(["first_true", "last_true", "uniform"]))
                if e3.error is None:
                    check("pair", e3, order.index(b), b, scripts[b], 2, order.index(b))
        # ---- subsets of 3 and 7 ----------------------------------------------------------------
        for size in (3, 7):
            others = [x for x in good if x != b]
            if len(others) < size - 1:
                continue
            sub = rng.sample(others, size - 1)
            pos = rng.randrange(size)
            sub.insert(pos, b)
            e4 = scripted_run(sub, [scripts[i] for i in sub], rng.choice(["first_true", "last_true", "uniform"]))
            if e4.error is None:
                check("subset", e4, pos, b, scripts[b], size, pos)
        # ---- copies of the target following different scripts -------------------------------------
        cop = rows(td, [b, b, b, b])
        cn = ["depot_whenever", "avoid_depot", "uniform", "last_true"] if cfg["env"] in ROUTING or cfg["env"] in ("fjsp", "jssp") else ["first_true", "last_true", "uniform", "uniform"]
        e6 = run_episode(env, cop, cn, gen, max_steps=max_steps)
        if e6.error is None and not hasattr(e6, "dead_end_at"):
            for r in range(4):
                if e6.finish_step(r) is None:
                    continue
                scr = e6.executed(r)
                try:
                    s6 = solo(env, td, b, scr, gen)
                except Exception:
                    continue
                ref6 = observe(s6, 0)
                if s6.error is not None or ref6["fin"] != len(scr) - 1:
                    ctx.evaluation()
                    ctx.violation(sig_of(cfg, q="finish", context="batched", padded=False, family=family),
                                  "solo execution of a script recorded among copies does not finish at the same step", dict(inst=plain_row(td, b), script=scr))
                    continue
                compare(ctx, cfg, "copies", ref6, observe(e6, r), plain_row(td, b), scr, 4, r, family)
                ctx.nontrivial_case(dict(c="copies", i=plain_row(td, b), s=scr, p=r))
