"""Policy zoo: small, untrained, seeded networks in eval mode (DESIGN 3.10)."""
from __future__ import annotations

import torch

from vlib import envzoo

AM_ENVS = ["tsp", "cvrp", "cvrptw", "sdvrp", "svrp", "op", "pctsp", "spctsp", "pdp", "mtsp", "mtvrp", "mdcpdp", "smtwtp", "atsp"]


def env_for(name, n, **extra):
    """(env, oracle-or-None, cfg) for a zoo key."""
    if name in ("smtwtp", "fjsp", "jssp", "ffsp", "flp", "mcp", "dpp", "mdpp"):
        cfg = dict(env=name, n=n, **extra)
        return envzoo.make_other(cfg), None, cfg
    cfg = dict(env=name, n=n, **extra)
    if name == "mtsp":
        cfg.setdefault("cost_type", "minmax")
        cfg.setdefault("agents", (2, 3))
    if name == "mtvrp":
        cfg.setdefault("preset", "all")
    if name == "pdp":
        cfg.setdefault("start_depot", False)
        cfg["n"] = n + (n % 2)
    if name == "mdcpdp":
        cfg.update(n=n + (n % 2), reward_mode=cfg.get("reward_mode", "minsum"), problem_mode=cfg.get("problem_mode", "close"), dist_mode="L2", depots=cfg.get("depots", 2))
    env, O = envzoo.make(cfg)
    return env, O, cfg


def make(kind, env, seed=0, **kw):
    torch.manual_seed(seed)
    name = env.name
    if kind == "am":
        from rl4co.models import AttentionModelPolicy

        p = AttentionModelPolicy(env_name=name, embed_dim=32, num_encoder_layers=2, num_heads=2, **kw)
    elif kind == "am_instnorm":
        from rl4co.models import AttentionModelPolicy

        p = AttentionModelPolicy(env_name=name, embed_dim=32, num_encoder_layers=2, num_heads=2, normalization="instance", use_graph_context=False, **kw)
    elif kind in ("am_moe", "am_moe_light"):
        # MVMoE-style encoder/decoder mixture of experts; freshly initialised gates are all zero (uniform routing), so the
        # gate weights are randomised as any trained checkpoint's would be; noisy gating is only active in train mode
        from rl4co.models import AttentionModelPolicy

        mk = {"encoder": {"hidden_act": "ReLU", "num_experts": 4, "k": 2, "noisy_gating": True},
              "decoder": {"light_version": kind == "am_moe_light", "num_experts": 4, "k": 2, "noisy_gating": True}}
        p = AttentionModelPolicy(env_name=name, embed_dim=32, num_encoder_layers=2, num_heads=2, normalization="instance", use_graph_context=False, moe_kwargs=mk, **kw)
        g = torch.Generator().manual_seed(seed + 99)
        for n_, prm in p.named_parameters():
            if n_.endswith("w_gate"):
                with torch.no_grad():
                    prm.copy_(torch.randn(prm.shape, generator=g) * 0.7)
    elif kind == "am_simple_sdpa":
        # documented option: the library's own exact attention function instead of torch's fused kernel, in encoder and decoder
        from rl4co.models import AttentionModelPolicy
        from rl4co.models.nn.attention import scaled_dot_product_attention_simple

        p = AttentionModelPolicy(env_name=name, embed_dim=32, num_encoder_layers=2, num_heads=2, normalization="instance",
                                 sdpa_fn_encoder=scaled_dot_product_attention_simple, sdpa_fn_decoder="simple", **kw)
    elif kind == "am_layernorm":
        from rl4co.models import AttentionModelPolicy

        p = AttentionModelPolicy(env_name=name, embed_dim=32, num_encoder_layers=1, num_heads=2, normalization="layer", **kw)
    elif kind == "ptrnet":
        from rl4co.models import PointerNetworkPolicy

        p = PointerNetworkPolicy(env_name=name, embed_dim=32, hidden_dim=32, **kw)
    elif kind == "ham":
        from rl4co.models import HeterogeneousAttentionModelPolicy

        p = HeterogeneousAttentionModelPolicy(env_name=name, embed_dim=32, num_encoder_layers=1, num_heads=2, **kw)
    elif kind == "symnco":
        from rl4co.models import SymNCOPolicy

        p = SymNCOPolicy(env_name=name, embed_dim=32, num_encoder_layers=1, num_heads=2, **kw)
    elif kind == "mdam":
        from rl4co.models import MDAMPolicy

        p = MDAMPolicy(env_name=name, embed_dim=32, num_encoder_layers=1, num_heads=2, **kw)
    elif kind == "matnet":
        from rl4co.models import MatNetPolicy

        p = MatNetPolicy(env_name=name, embed_dim=32, num_encoder_layers=1, num_heads=2, **kw)
    elif kind == "polynet":
        from rl4co.models.zoo.polynet.policy import PolyNetPolicy

        p = PolyNetPolicy(k=kw.pop("k", 3), env_name=name, embed_dim=32, num_encoder_layers=1, num_heads=2, **kw)
    elif kind in ("nar", "deepaco"):
        # the bundled NON-autoregressive policy machinery (heat-map decoder + ConstructivePolicy decode loop). Its bundled encoders
        # (NARGNN / DeepACO) need torch_geometric, which is not installed; a tiny per-instance heat-map encoder stands in for them
        import torch.nn as nn

        from rl4co.models.common.constructive.nonautoregressive import NonAutoregressivePolicy

        class TinyHeatmapEncoder(nn.Module):
            def __init__(self):
                super().__init__()
                self.net = nn.Sequential(nn.Linear(5, 16), nn.Tanh(), nn.Linear(16, 1))

            def forward(self, td):
                x = td["locs"]
                d = x[:, :, None, :] - x[:, None, :, :]
                feat = torch.cat((d, d.norm(dim=-1, keepdim=True), x[:, :, None, :].expand(-1, -1, x.shape[1], -1)), -1)
                return self.net(feat).squeeze(-1), None

        if kind == "deepaco":
            # DeepACO's policy class on the same stand-in encoder: its train phase is a multi-start sampling rollout with n_ants starts
            from rl4co.models.zoo.deepaco.policy import DeepACOPolicy

            # (local search needs numba, which is not installed: trained without it, a documented switch)
            p = DeepACOPolicy(encoder=TinyHeatmapEncoder(), env_name=name, train_with_local_search=False, ls_reward_aug_W=0.0, **kw)
        else:
            p = NonAutoregressivePolicy(encoder=TinyHeatmapEncoder(), env_name=name, **kw)
    elif kind == "matnet_ffsp":
        # MatNet for the flexible flow shop as originally implemented: one encoder / decoder per stage, decode loop on policy level
        from rl4co.models.zoo.matnet.policy import MultiStageFFSPPolicy

        p = MultiStageFFSPPolicy(stage_cnt=env.num_stage, embed_dim=32, num_heads=2, num_encoder_layers=1, feedforward_hidden=32,
                                 train_decode_type="sampling", val_decode_type="greedy", test_decode_type="greedy", **kw)
    elif kind == "l2d":
        from rl4co.models import L2DPolicy

        p = L2DPolicy(env_name=name, embed_dim=32, num_encoder_layers=1, **kw)
    elif kind == "mvmoe":
        from rl4co.models.zoo.mvmoe.policy import MVMoE_AM_Policy  # noqa

        p = MVMoE_AM_Policy(env_name=name, embed_dim=32, num_encoder_layers=1, num_heads=2, **kw)
    else:
        raise KeyError(kind)
    p.eval()
    return p
