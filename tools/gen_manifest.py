#!/venv/bin/python
"""Regenerates MANIFEST.json from the check modules present in checks/ (one source of truth)."""
import importlib, json, os, sys
ROOT = os.path.dirname(os.path.dirname(os.path.abspath(__file__)))
sys.path.insert(0, ROOT)
props = [json.loads(l) for l in open(os.path.join(ROOT, "properties.jsonl"))]
checks, na = [], []
for p in props:
    pid = p["id"]
    path = os.path.join(ROOT, "checks", pid.lower() + ".py")
    if not os.path.exists(path):
        na.append(dict(property_id=pid, reason="runtime monitor not built yet in this round (planned in DESIGN.md section 4); no claim is made"))
        continue
    src = open(path).read()
    ns = {}
    # metadata only: avoid importing torch here
    import ast
    tree = ast.parse(src)
    for node in tree.body:
        if isinstance(node, ast.Assign) and len(node.targets) == 1 and isinstance(node.targets[0], ast.Name):
            try:
                ns[node.targets[0].id] = ast.literal_eval(node.value)
            except Exception:
                pass
    m = ns.get("MANIFEST", {})
    checks.append(dict(
        property_id=pid,
        quick_cmd=f"./check {pid} --tier quick",
        thorough_cmd=f"./check {pid} --tier thorough",
        evidence_file=f"/verif/evidence/{pid}.json",
        replay_cmd_template=f"./check {pid} --replay {{path}}",
        engine="rl4co-runtime-monitor",
        level_claimed=dict(category=ns.get("LEVEL", "exploration"), text=m.get("text", ""), design_ref=m.get("design_ref", f"DESIGN.md section 4 / {pid}")),
        level_note=m.get("note", ""),
        technique=m.get("technique", "runtime monitoring: independent oracle over recorded executions of the real code"),
    ))
man = dict(
    version=1,
    setup_cmd="./setup.sh",
    hooks=dict(
        guard="RL4CO_VERIF",
        enable="no source hooks: monitors wrap the real objects from the harness process; checks import /repo's working tree directly (VERIF_REPO overrides)",
        baseline_off_cmd="cd /repo && /venv/bin/python -m pytest -ra -q -p no:cacheprovider --timeout=900 --continue-on-collection-errors",
        source_commits=[],
        add_only=True,
    ),
    engines=[dict(name="rl4co-runtime-monitor", path="/verif/run_check.py", serves_properties=[c["property_id"] for c in checks],
                  kind_free_text="drivers run real env/policy/trainer code; recorder wrappers at the API boundary; pure-Python oracles; three-valued verdict; sharded over subprocesses")],
    checks=checks,
    notes="Exit codes: 0 held (KNOWN-FINDING lines possible), 1 VIOLATION, 2 INCONCLUSIVE (monitor starved / watchdog). Known findings: known_findings.json (by mechanism signature).",
    not_applicable=na,
)
json.dump(man, open(os.path.join(ROOT, "MANIFEST.json"), "w"), indent=1)
print("checks:", [c["property_id"] for c in checks], "n/a:", [x["property_id"] for x in na])
