#!/venv/bin/python
"""tools/cov_audit.py [C01 ...] [--tier=quick]  -> reach audit of the checks' workloads.

Runs each check with VERIF_COV set (workers record line+branch coverage of <repo>/rl4co with coverage.py), combines the
workers' data and writes coverage/<id>.json: for every file the property is anchored in, the executable lines never
executed and the branches never taken while that property's monitors were attached. This is an audit of the *workload*
(where a change could not possibly be observed), not a verdict; the summary is printed and kept in coverage/SUMMARY.md.
"""
import json, os, shutil, subprocess, sys, tempfile
ROOT = os.path.dirname(os.path.dirname(os.path.abspath(__file__)))
args = [a for a in sys.argv[1:] if not a.startswith("--")]
opts = dict(a[2:].split("=", 1) for a in sys.argv[1:] if a.startswith("--") and "=" in a)
tier = opts.get("tier", "quick")
repo = os.environ.get("VERIF_REPO", "/repo")
props = {json.loads(l)["id"]: json.loads(l) for l in open(os.path.join(ROOT, "properties.jsonl"))}
ids = args or sorted(props)
os.makedirs(os.path.join(ROOT, "coverage"), exist_ok=True)
import coverage
rows = []
for pid in ids:
    d = tempfile.mkdtemp(prefix=f"verif-cov-{pid}-")
    env = dict(os.environ, VERIF_COV=d, COVERAGE_CORE="sysmon")
    p = subprocess.run([os.path.join(ROOT, "check"), pid, "--tier", tier, "--no-evidence"], cwd=ROOT, env=env, capture_output=True, text=True)
    cov = coverage.Coverage(data_file=os.path.join(d, ".coverage"), branch=True)
    cov.combine(data_paths=[d])
    out = dict(property=pid, tier=tier, check_rc=p.returncode, files={})
    for rel in props[pid]["anchors"]["files"]:
        f = os.path.join(repo, rel)
        if not os.path.exists(f):
            continue
        try:
            an = cov._analyze(f)
        except Exception as e:
            out["files"][rel] = dict(error=str(e)); continue
        nstat, miss = len(an.statements), sorted(an.missing)
        mb = {str(k): v for k, v in an.missing_branch_arcs().items()}
        out["files"][rel] = dict(statements=nstat, missing=miss, pct=round(100 * (1 - len(miss) / max(1, nstat)), 1), missing_branches=mb)
        rows.append((pid, rel, nstat, len(miss), len(mb)))
    json.dump(out, open(os.path.join(ROOT, "coverage", f"{pid}.json"), "w"), indent=1)
    os.makedirs(os.path.join(ROOT, "coverage", "raw"), exist_ok=True)
    cov.save()
    shutil.copy(os.path.join(d, ".coverage"), os.path.join(ROOT, "coverage", "raw", f"{pid}.coverage"))
    shutil.rmtree(d, ignore_errors=True)
    print(pid, "rc", p.returncode, {k: v.get("pct") for k, v in out["files"].items()}, flush=True)
