#!/venv/bin/python
"""tools/write_meta.py <name> <needs_to_manifest> [caught_by]  -> seeded/<name>/meta.json from notes.md, confirm.txt, detection.json"""
import json, os, re, sys
ROOT = os.path.dirname(os.path.dirname(os.path.abspath(__file__)))
name, needs = sys.argv[1], sys.argv[2]
d = os.path.join(ROOT, "seeded", name)
prop = name.split("-")[0]
title = next((l for l in open(os.path.join(d, "notes.md")) if l.startswith("#")), "# ?").lstrip("# ").strip()
title = re.sub(r"^(Change|Seed)\s+[AB]\s*[-:—]+\s*", "", title)
det = json.load(open(os.path.join(d, "detection.json"))) if os.path.exists(os.path.join(d, "detection.json")) else {"results": {}}
caught = [c for c, v in det["results"].items() if v["rc"] == 1]
conf = [l.strip() for l in open(os.path.join(d, "confirm.txt")) if not l.startswith("  demo_patched_out")] if os.path.exists(os.path.join(d, "confirm.txt")) else []
meta = dict(property=prop, change=title, needs_to_manifest=needs, checks=sorted(set([prop] + list(det["results"]))),
            caught_by=(sys.argv[3] if len(sys.argv) > 3 else ", ".join(caught) or "NOT CAUGHT"), round=int(re.search(r"r(\d)", name).group(1)) if "-r" in name else 1,
            confirmed=dict(how="tools/confirm_seed.sh in a scratch worktree of /repo (apply patch -> repo test suite -> demo.py; revert -> demo.py)", result=conf),
            source="independent sub-agent given the property text, its own worktree and the one-line list of changes already collected for that property")
json.dump(meta, open(os.path.join(d, "meta.json"), "w"), indent=1)
print(name, meta["caught_by"], conf[-3:] if conf else "NO CONFIRM")
