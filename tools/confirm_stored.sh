#!/bin/bash
# tools/confirm_stored.sh <seed-name>  -> (re)confirms seeded/<name> in a fresh scratch worktree of /repo HEAD, writes seeded/<name>/confirm.txt
name=$1
here=$(cd "$(dirname "$0")/.." && pwd)
wt=/tmp/conf-$name
git -C /repo worktree remove --force $wt 2>/dev/null
git -C /repo worktree add --detach $wt HEAD -q || exit 9
mkdir -p $wt/SEED/x
cp $here/seeded/$name/patch.diff $here/seeded/$name/demo.py $wt/SEED/x/
bash $here/tools/confirm_seed.sh $wt x > /dev/null 2>&1
cp $wt/SEED/x/confirm.txt $here/seeded/$name/confirm.txt
git -C /repo worktree remove --force $wt
cat $here/seeded/$name/confirm.txt
