#!/bin/bash
# tools/harvest_seed.sh <Cxx> <round>: copy the agent's SEED/{a,b} into seeded/<Cxx>-r<round>{a,b}, drop its worktree,
# then confirm each in a fresh worktree (background, log in /tmp/conf-<name>.log) and run the owning check against it.
pid=$1; rnd=$2
here=$(cd "$(dirname "$0")/.." && pwd)
wt=/tmp/seed$rnd-$pid
for v in a b; do
  [ -f $wt/SEED/$v/patch.diff ] || continue
  name=$pid-r$rnd$v
  mkdir -p $here/seeded/$name
  cp $wt/SEED/$v/patch.diff $wt/SEED/$v/demo.py $wt/SEED/$v/notes.md $here/seeded/$name/ 2>/dev/null
  (setsid $here/tools/confirm_stored.sh $name > /tmp/conf-$name.log 2>&1 &)
done
git -C /repo worktree remove --force $wt
for v in a b; do
  name=$pid-r$rnd$v
  [ -d $here/seeded/$name ] && $here/tools/run_seeded.py $name | tail -2
done
