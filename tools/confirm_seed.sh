#!/bin/bash
# confirm_seed.sh <worktree> <variant-dir-name>   -> writes <worktree>/SEED/<v>/confirm.txt
# apply patch -> repo tests must pass -> demo must fail ; revert -> demo must pass
wt=$1; v=$2
cd $wt || exit 9
export PYTHONPATH=$wt OMP_NUM_THREADS=2 MKL_NUM_THREADS=2
out=$wt/SEED/$v/confirm.txt
: > $out
git checkout -q -- rl4co
/venv/bin/python SEED/$v/demo.py > /tmp/$$.demo0 2>&1; echo "demo_clean_rc=$?" >> $out
git apply SEED/$v/patch.diff || { echo "apply_failed" >> $out; exit 1; }
/venv/bin/python -m pytest -q -p no:cacheprovider --timeout=900 tests --deselect "tests/test_envs.py::test_eda" --deselect "tests/test_policy.py::test_am_policy[dpp]" --deselect "tests/test_policy.py::test_am_policy[mdpp]" 2>&1 | tail -3 > /tmp/$$.tests
grep -E "passed|failed" /tmp/$$.tests | tail -1 | sed 's/^/tests_patched: /' >> $out
/venv/bin/python SEED/$v/demo.py > /tmp/$$.demo1 2>&1; echo "demo_patched_rc=$?" >> $out
tail -3 /tmp/$$.demo1 | sed 's/^/  demo_patched_out: /' >> $out
git checkout -q -- rl4co
/venv/bin/python SEED/$v/demo.py > /dev/null 2>&1; echo "demo_reverted_rc=$?" >> $out
rm -rf $wt/data $wt/lightning_logs /tmp/$$.*
cat $out
