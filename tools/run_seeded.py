#!/venv/bin/python
"""Runs registered checks against the seeded breaking changes in /verif/seeded/<name>/patch.diff.

usage: tools/run_seeded.py [name ...] [--checks C01,C03] [--tier quick]
Default: each patch is applied in a scratch git worktree of /repo (under /tmp, removed afterwards) and the checks are
pointed at it with VERIF_REPO, so /repo itself is never touched and background runs are not disturbed.
With --in-repo=1 the patch is applied to /repo itself (git apply ... git checkout -- .); /repo must then be idle.
Writes seeded/<name>/detection.json and prints a table.
"""
import json, os, subprocess, sys, time
ROOT = os.path.dirname(os.path.dirname(os.path.abspath(__file__)))
args = [a for a in sys.argv[1:] if not a.startswith("--")]
opts = dict(a[2:].split("=", 1) for a in sys.argv[1:] if a.startswith("--") and "=" in a)
tier = opts.get("tier", "quick")
names = args or sorted(os.listdir(os.path.join(ROOT, "seeded")))
assert subprocess.run(["git", "-C", "/repo", "status", "--porcelain", "--untracked-files=no"], capture_output=True, text=True).stdout.strip() == "", "/repo not clean"
rows = []
for name in names:
    d = os.path.join(ROOT, "seeded", name)
    patch = os.path.join(d, "patch.diff")
    if not os.path.exists(patch):
        continue
    meta = json.load(open(os.path.join(d, "meta.json"))) if os.path.exists(os.path.join(d, "meta.json")) else {}
    checks = opts.get("checks", ",".join(meta.get("checks", [name.split("-")[0]]))).split(",")
    in_repo = opts.get("in-repo") == "1"
    tree = "/repo" if in_repo else f"/tmp/verif-seedrun-{name}-{os.getpid()}"
    if not in_repo:
        subprocess.run(["git", "-C", "/repo", "worktree", "add", "--detach", tree, "HEAD", "-q"], check=True)
    r = subprocess.run(["git", "-C", tree, "apply", patch], capture_output=True, text=True)
    if r.returncode != 0:
        rows.append((name, "APPLY-FAILED", r.stderr.strip()[:100]))
        if not in_repo:
            subprocess.run(["git", "-C", "/repo", "worktree", "remove", "--force", tree])
        continue
    res = {}
    env = dict(os.environ, VERIF_REPO=tree)
    try:
        for c in checks:
            t0 = time.time()
            p = subprocess.run([os.path.join(ROOT, "check"), c, "--tier", tier, "--no-evidence"], capture_output=True, text=True, cwd=ROOT, env=env)
            viol = [l for l in p.stdout.splitlines() if l.startswith("VIOLATION") or l.startswith("  sig=") or l.startswith("INCONCLUSIVE")]
            res[c] = dict(rc=p.returncode, wall=round(time.time() - t0, 1), lines=viol[:12])
    finally:
        if in_repo:
            subprocess.run(["git", "-C", "/repo", "checkout", "--", "."], check=True)
        else:
            subprocess.run(["git", "-C", "/repo", "worktree", "remove", "--force", tree])
    json.dump(dict(tier=tier, results=res, at=time.strftime("%Y-%m-%d %H:%M")), open(os.path.join(d, "detection.json"), "w"), indent=1)
    rows.append((name, " ".join(f"{c}:rc={v['rc']}" for c, v in res.items()), ""))
    print(rows[-1], flush=True)
print()
for r in rows:
    print(*r)
