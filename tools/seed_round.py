#!/venv/bin/python
"""tools/seed_round.py <Cxx> <round> -> writes /tmp/seed<round>-prompt-<Cxx>.txt and creates worktree /tmp/seed<round>-<Cxx>.
Prompt = tools/seed_prompt.py text + one-line list of the changes already collected for that property (from seeded/*/meta.json
or notes.md titles) + housekeeping rules."""
import json, os, subprocess, sys, glob, re
ROOT = os.path.dirname(os.path.dirname(os.path.abspath(__file__)))
pid, rnd = sys.argv[1], sys.argv[2]
wt = f"/tmp/seed{rnd}-{pid}"
if not os.path.exists(wt):
    subprocess.run(["git", "-C", "/repo", "worktree", "add", "--detach", wt, "HEAD", "-q"], check=True)
base = subprocess.run(["/venv/bin/python", os.path.join(ROOT, "tools/seed_prompt.py"), pid, wt], capture_output=True, text=True, check=True).stdout
prev = []
for d in sorted(glob.glob(os.path.join(ROOT, "seeded", "*"))):
    mp = os.path.join(d, "meta.json")
    props = {os.path.basename(d).split("-")[0]}
    title = None
    if os.path.exists(mp):
        m = json.load(open(mp))
        props.add(m.get("property"))
        title = m.get("change")
    if title is None and os.path.exists(os.path.join(d, "notes.md")):
        title = next((l for l in open(os.path.join(d, "notes.md")) if l.startswith("#")), "").lstrip("# ").strip()
    if pid in props and title:
        prev.append(title)
extra = "\n\nAlready collected for this property (do NOT repeat these or trivial variants of them; look in OTHER environments / files / mechanisms among the anchored code, and prefer environments, modes, configurations and code paths that are rarely exercised; changes that only show under a specific multi-step history, a specific batch composition or a non-default configuration are the most valuable):\n" + "\n".join(f"  - {t}" for t in prev)
if int(rnd) >= 4:
    extra += ("\n\nFor this round, prefer changes of a kind NOT represented in the list above. Ideas: a change in a shared helper or base class that the anchored code "
              "calls (rl4co/utils, rl4co/envs/common, rl4co/models/common, rl4co/models/nn) rather than in the anchored file itself; an effect that needs a HISTORY "
              "(object reused across calls, second epoch, state left behind by a previous call); an effect that needs an unusual but documented CONFIGURATION "
              "(constructor or generator argument that no test sets) or dtype/device/shape (batch size 1, a batch dimension of size equal to another dimension, "
              "non-contiguous or expanded tensors, float64 inputs); an interaction of two documented options. Avoid boundary-comparison flips (<, <=) unless nothing else works.")
if int(rnd) >= 5:
    extra += ("\n\nAdditional steer for this round: (1) look for public functions, classes, constructor arguments and branches in the anchored files (and the helpers they call) "
              "that NO existing test calls, and prefer to plant the change there; (2) aliasing / in-place mutation of tensors the caller still holds (views, expand, shared storage, "
              "a TensorDict updated in place and also returned); (3) numeric edge cases that are still documented-valid inputs (coordinates or times of very different magnitude, "
              "zero-length legs, equal values / exact ties, float64 inputs, empty selections, a single customer / job / machine); (4) an option that is only wrong in combination "
              "with ANOTHER non-default option or with a particular phase (train vs val/test); (5) instances whose size differs from the size the env / generator was constructed with; "
              "(6) object reuse: the same env / policy / baseline / dataset object used for a second episode, epoch, file or batch of a different shape.")
if int(rnd) >= 6:
    extra += ("\n\nFor THIS round prefer, in this order: (a) a change that only shows at a larger scale than toy examples - instances with 30-100+ nodes / jobs, long episodes, many decoding "
              "steps, many epochs or batches, large batch sizes (e.g. a lookup table keyed by size, an algorithm switch above a size threshold, an integer dtype that overflows, a quadratic "
              "buffer, a step cap, a tolerance that only bites for long sums); (b) a rare data-dependent branch (exact ties, a degenerate sub-case, an instance feature that the default "
              "generator produces in < 5% of instances); (c) two cooperating edits in different files that are each harmless alone. Say in notes.md which scale / frequency is needed.")
if int(rnd) >= 7:
    extra += ("\n\nFor THIS round (it overrides the scale preference above): read the property statement clause by clause and compare with the list of collected changes. Pick clauses, "
              "environments, model classes or quantifier dimensions of the statement that NONE of the collected changes touches, and break exactly those. If every clause is touched, pick "
              "the environment / model / option combination named or implied by the statement that is touched least. State in notes.md which clause / combination you targeted and why "
              "you believe it is untouched.")
extra += f"\n\nHousekeeping: test runs create large 'data/' and 'lightning_logs/' directories inside your worktree; delete both (rm -rf {wt}/data {wt}/lightning_logs) before you finish. Use at most 4 CPU cores (e.g. OMP_NUM_THREADS=2). The test suite takes 5-10 minutes; run it in the background with output to a file and a generous timeout rather than blocking on it. Do NOT use 'git stash' (shared between worktrees of other people working in parallel): keep your changes as patch files and use 'git apply' / 'git apply -R' / 'git checkout -- rl4co'. Do not use pkill/killall with patterns that could match other people's processes.\n"
out = f"/tmp/seed{rnd}-prompt-{pid}.txt"
open(out, "w").write(base + extra)
print(out, len(prev), "previous changes listed")
