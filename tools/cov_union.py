#!/venv/bin/python
"""tools/cov_union.py -> coverage/UNION.json + coverage/SUMMARY.md: for every file under <repo>/rl4co that any property is
anchored in (plus the shared helpers), the statements executed by NO check's workload, grouped by enclosing function.
Input: coverage/raw/<id>.coverage written by tools/cov_audit.py."""
import ast, glob, json, os, sys
import coverage

ROOT = os.path.dirname(os.path.dirname(os.path.abspath(__file__)))
repo = os.environ.get("VERIF_REPO", "/repo")
props = [json.loads(l) for l in open(os.path.join(ROOT, "properties.jsonl"))]
anch = {}
for p in props:
    for f in p["anchors"]["files"]:
        anch.setdefault(f, []).append(p["id"])
raws = sorted(glob.glob(os.path.join(ROOT, "coverage", "raw", "C*.coverage")))
tmp = os.path.join(ROOT, "coverage", "raw", "union.tmp")
if os.path.exists(tmp):
    os.remove(tmp)
u = coverage.CoverageData(basename=tmp)
for r in raws:
    cd = coverage.CoverageData(basename=r)
    cd.read()
    u.update(cd)
u.write()
cov = coverage.Coverage(data_file=tmp, branch=True)
cov.load()


def funcs(path):
    t = ast.parse(open(path).read())
    return [(n.lineno, n.end_lineno, n.name) for n in ast.walk(t) if isinstance(n, (ast.FunctionDef, ast.AsyncFunctionDef))]


def owner(fs, ln):
    best = None
    for a, b, n in fs:
        if a <= ln <= b and (best is None or a >= best[0]):
            best = (a, b, n)
    return best[2] if best else "<module>"


extra = []
for dp, _, fns in os.walk(os.path.join(repo, "rl4co")):
    for fn in fns:
        if fn.endswith(".py"):
            extra.append(os.path.relpath(os.path.join(dp, fn), repo))
files = sorted(set(anch) | (set(extra) if "--all" in sys.argv else set()))
union = {}
md = ["# Reach audit: statements of anchored files executed by no check (quick tier)", ""]
tot_s = tot_m = 0
for rel in files:
    f = os.path.join(repo, rel)
    if not os.path.exists(f):
        continue
    try:
        an = cov._analyze(f)
    except Exception:
        continue
    miss = sorted(an.missing)
    fs = funcs(f)
    by = {}
    for ln in miss:
        by.setdefault(owner(fs, ln), []).append(ln)
    union[rel] = dict(anchors=anch.get(rel, []), statements=len(an.statements), missing=len(miss), by_function=by,
                      missing_branches={str(k): v for k, v in an.missing_branch_arcs().items()})
    tot_s += len(an.statements)
    tot_m += len(miss)
    md.append(f"## {rel}  ({', '.join(anch.get(rel, []))})  {len(an.statements)-len(miss)}/{len(an.statements)} statements")
    for fn, ls in by.items():
        md.append(f"* `{fn}`: {ls}")
    md.append("")
md.insert(1, f"Total over {len(union)} files: {tot_s-tot_m}/{tot_s} statements executed under some monitor ({100*(tot_s-tot_m)/max(1,tot_s):.1f}%).")
json.dump(union, open(os.path.join(ROOT, "coverage", "UNION.json"), "w"), indent=1)
open(os.path.join(ROOT, "coverage", "SUMMARY.md"), "w").write("\n".join(md) + "\n")
os.remove(tmp)
print(md[1])
