#!/venv/bin/python
"""Prints the prompt given to a seeding sub-agent: only the property text + its own scratch worktree."""
import json, sys
pid, wt = sys.argv[1], sys.argv[2]
p = [json.loads(l) for l in open('/verif/properties.jsonl') if json.loads(l)['id'] == pid][0]
print(f"""You are helping to evaluate a verification effort by playing the role of a developer who introduces a subtle regression.

Repository: ai4co/rl4co (PyTorch/TorchRL library of batched combinatorial-optimization environments and neural policies). You have your OWN scratch git worktree of it at {wt} . Work ONLY inside {wt} (never touch /repo or /verif, do not read /verif). Python is /venv/bin/python; the package is installed in editable mode pointing at /repo, so to import YOUR worktree you MUST run everything with `cd {wt} && PYTHONPATH={wt} /venv/bin/python ...` (verify once with `python -c "import rl4co; print(rl4co.__file__)"`). There is no network. CPU only.

The semantic property that should hold for this code base:

  Title: {p['title']}
  Statement: {p['statement']}
  Quantified over: {p['quantifier']['text']}
  Code it is anchored in: {', '.join(p['anchors']['files'])}

Your task: produce TWO different, independent source changes to the library (under {wt}/rl4co/) each of which BREAKS this property while the package still imports and the EXISTING test suite still passes. Test command (takes ~2-3 min; 4 tests about DPP/MDPP fail on the untouched tree already because data files are missing offline - ignore those 4):
  cd {wt} && PYTHONPATH={wt} /venv/bin/python -m pytest -q -p no:cacheprovider --timeout=900 -x -q tests 2>&1 | tail -15
(drop -x if the DPP failures stop it early; or deselect with  --deselect "tests/test_envs.py::test_eda" --deselect "tests/test_policy.py::test_am_policy[dpp]" --deselect "tests/test_policy.py::test_am_policy[mdpp]").

Requirements for each change:
- It must look like a plausible bug a maintainer could introduce (an off-by-one, a wrong dim, a dropped clone, a swapped argument order, a boundary comparison, stale state, a wrong index after refactor, ...), small (a few lines), NOT a crash and not something ordinary use would expose at once.
- It should need something SPECIFIC to manifest: an unusual input or boundary value, a particular batch composition or batch size, a multi-step sequence of operations, a particular configuration/mode, or two cooperating sites that each look fine alone. Prefer changes in different files / mechanisms for the two.
- All existing tests must still pass with the change applied (run them!).
- Provide a demonstration program for each: a small standalone Python script that exits 0 on the unchanged tree and exits non-zero (assertion failure showing the wrong value) with your change applied. The demo must check the PROPERTY (an observable wrong result: wrong value, infeasible solution, wrong pairing...), not the source text.

Deliverables, written into {wt}/SEED/ :
  a/patch.diff  (output of `git diff` for change A alone, relative to HEAD, applicable with `git apply` on a clean tree)
  a/demo.py     (run as: cd <tree> && PYTHONPATH=<tree> /venv/bin/python SEED/a/demo.py ; must not hard-code {wt}: take the tree from PYTHONPATH/cwd)
  a/notes.md    (what it breaks, what it needs in order to manifest, which tests you ran and their result)
  b/patch.diff, b/demo.py, b/notes.md  likewise for change B.
Before finishing: `git checkout -- rl4co` so the worktree is clean apart from SEED/, then verify for each change: apply patch -> tests pass -> demo fails; revert -> demo passes. Report briefly (in your final message) what the two changes are and the verification you did. If you cannot find a second good change, deliver one.""")
