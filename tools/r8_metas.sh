#!/bin/bash
# round-8 metas; run after tools/run_seeded.py refreshed detection.json
cd "$(dirname "$0")/.."
m() { tools/write_meta.py "$@" | cut -c1-160; }
m C02-r8a "an episode that legitimately takes more than 1001 steps decoded with the default forward() arguments (TSP >= 1002 nodes)"
m C02-r8b "SDVRPEnv with generator vehicle_capacity < 1 and a driver that prefers a still-offered customer over the depot when the vehicle is full"
m C03-r8a "ATSP with an asymmetric cost matrix (every generated instance) and an oracle that walks the closing edge in travel direction"
m C03-r8b "mTSP minmax, a solution leaving an agent unused whose final sub-tour (with its return leg) is the longest, on a row not stepped again after done"
m C05-r8a "FFSP with >= 2 stages and >= 2 machines per stage, a later-stage state where all jobs left the earlier stages, one job ready and another still processing upstream"
m C07-r8a "FJSP (not JSSP), batch >= 2, num_starts >= 2, instances whose reset masks differ, episode started through env.select_start_nodes"
m C09-r8a "PDP ruin-repair history containing step_to_solution (after a rewarded step, or to a tour better than the best so far)"
m C11-r8a "DeepACOPolicy with phase='train', batch >= 2 and n_ants >= 2"
m C13-r8a "an OP / SVRP / mTSP instance with no feasible first customer (e.g. SVRP first technician below every requirement) under beam search / multi-start"
m C16-r8a "PPO with normalize_adv=True (default False)"
m C16-r8b "SymNCO with beta != 1 and augmentation only, or multi-start only"
m C17-r8a "rollout baseline, max_epochs >= 3 and an epoch end at which the baseline policy is replaced"
m C17-r8b "several val/test sets whose names are not in sorted order (explicit names, or more than ten unnamed sets)"
m C19-r8a "an FJSP instance with padding operations (fewer real operations than the batch's operation dimension) written to a text file and read back"
