#!/bin/bash
# Offline setup: nothing is fetched. Verifies the interpreter sees the working tree, byte-compiles the harness.
set -e
cd "$(dirname "$0")"
mkdir -p evidence replays
/venv/bin/python - <<'PY'
import sys, os
sys.path.insert(0, os.environ.get("VERIF_REPO", "/repo"))
import rl4co, torch, tensordict
print("rl4co from", os.path.dirname(rl4co.__file__), "torch", torch.__version__)
PY
/venv/bin/python -m compileall -q vlib checks run_check.py >/dev/null
echo setup ok
