"""C10 — decoding distributions are proper and confined to feasible actions.

Events: every call of the REAL rl4co.utils.decoding.process_logits / DecodingStrategy.greedy /
.sampling / Greedy.step / Sampling.step with (logits, mask, T, top_k, top_p, clip) drawn from
structured and random families. Oracle: float64 statement of the LAWS (not the code):
normalised, zero mass on masked, argmax feasible kept, <= k kept (ties aside), kept mass >= p,
shift invariance, greedy is a maximiser, samples have positive probability.
"""
import itertools
import math

PROPERTY = "C10"
LEVEL = "exploration"
RULE = (
    "case = (logit family, N, B, temperature, top_k, top_p, tanh_clipping, seed); each case builds a [B,N] "
    "logit batch + mask (>=1 True per row) and calls the real process_logits/greedy/sampling/Strategy.step; "
    "non-trivial = distinct (family,N,T,k,p,clip,seed) whose rows had >=2 feasible actions and at least one "
    "masked action or an active filter; every row is one evaluation"
)
ASSUMPTIONS = [
    "shift invariance is judged with tanh_clipping=0 (tanh(x+c) != tanh(x)+c' for any correct clipping) and with "
    "exactly representable shifts; with top-k/top-p active only power-of-two temperatures are used so that the "
    "comparison is bit-meaningful",
    "with top_k and top_p both active the nucleus mass is measured on the top-k-renormalised distribution "
    "(the distribution top-p is applied to)",
    "float32 tolerance: 1e-5 on sums/masses plus 2 ulp of the largest scaled logit magnitude (the representation error of "
    "x/T in float32: 1e-3 at |x/T| ~ 1e4), ties = logits equal after the library's own float32 scaling",
]
REQUIRED_COUNTERS = ["layout_variant_calls", "float64_calls", "process_logits_calls", "greedy_calls", "sampling_calls", "strategy_step_calls", "shift_pairs"]
MIN_NONTRIVIAL = {"quick": 200, "thorough": 2000}
WORKERS = {"quick": 8, "thorough": 16}
BUDGET_S = {"quick": 300, "thorough": 1500}
THOROUGH_ROUNDS = 8

FAMILIES = ["randn", "ties", "all_equal", "huge", "single_feasible", "tail_masked", "peaked", "tiny_gaps", "neg_huge", "masked_huge"]
TS = [0.05, 0.25, 0.5, 1.0, 2.0, 4.0, 10.0, 0.7, 1.7]
KS = [0, 1, 2, 3, "N", "N+5"]
PS = [0.0, 1e-8, 1e-7, 1e-6, 1e-3, 0.1, 0.5, 0.9, 0.999, 1.0]
CLIPS = [0.0, 1.0, 10.0]


def cases(tier, seed):
    out = []
    ns = [2, 3, 5, 10, 21, 101, 257, 1001] if tier == "quick" else [2, 3, 4, 5, 7, 10, 21, 51, 101, 257, 1001]
    reps = 1 if tier == "quick" else 4
    import random

    rnd = random.Random(seed * 7919 + 1)
    combos = list(itertools.product(FAMILIES, TS, KS, PS, CLIPS))
    rnd.shuffle(combos)
    limit = 1400 if tier == "quick" else 14000
    i = 0
    for fam, T, k, p, clip in combos:
        for r in range(reps):
            N = ns[(i + r) % len(ns)]
            out.append(dict(fam=fam, N=N, B=8, T=T, k=k, p=p, clip=clip, s=rnd.randrange(10**6)))
        i += 1
        if len(out) >= limit:
            break
    # the multi-start / beam modes emit their first action without any distribution: the environment's start rule. Batches with
    # rows that have only a few (or no) feasible first customers, and more starts than twice that number (several laps)
    for n in ((6, 10) if tier == "quick" else (6, 10, 20)):
        for B_ in (2, 4):
            for r in range(3 if tier == "quick" else 10):
                out.append(dict(kind="start_rule", cfg=dict(env="op", n=n), B=B_, s=rnd.randrange(10**6), hostile=True, k=rnd.choice([2 * n, 3 * n, n + 1])))
    return out


def make_logits(case):
    import torch

    g = torch.Generator().manual_seed(case["s"])
    B, N, fam = case["B"], case["N"], case["fam"]
    q = 1024.0
    if fam == "randn":
        x = torch.randn(B, N, generator=g) * 3
    elif fam == "ties":
        x = torch.randint(-2, 3, (B, N), generator=g).float()
    elif fam == "all_equal":
        x = torch.full((B, N), float(torch.randint(-5, 5, (1,), generator=g)))
    elif fam == "huge":
        x = torch.randint(-10000, 10000, (B, N), generator=g).float()
        q = 1.0
    elif fam == "neg_huge":
        x = -1e4 + torch.randint(0, 8, (B, N), generator=g).float()
        q = 1.0
    elif fam == "single_feasible":
        x = torch.randn(B, N, generator=g) * 3
    elif fam == "tail_masked":
        x = torch.randn(B, N, generator=g) * 3
    elif fam == "peaked":
        x = torch.randn(B, N, generator=g)
        x[:, 0] += 30
    elif fam == "tiny_gaps":
        x = torch.randint(0, 4, (B, N), generator=g).float() / 1024.0
    elif fam == "masked_huge":
        x = torch.randn(B, N, generator=g) * 3  # infeasible entries get finite logits ~1e8 below (unbounded scorers)
    else:
        raise ValueError(fam)
    x = torch.round(x * q) / q  # exactly representable, so exact shifts exist
    mask = torch.rand(B, N, generator=g) < 0.7
    if fam == "single_feasible":
        mask = torch.zeros(B, N, dtype=torch.bool)
        mask[torch.arange(B), torch.randint(0, N, (B,), generator=g)] = True
    elif fam == "tail_masked":
        # mask the most likely half: the nucleus of the raw logits lies in the masked part
        order = x.argsort(-1, descending=True)
        mask = torch.ones(B, N, dtype=torch.bool)
        mask.scatter_(1, order[:, : max(1, N // 2)], False)
    # at least one feasible action per row
    none = ~mask.any(-1)
    mask[none, torch.randint(0, N, (int(none.sum()),), generator=g)] = True
    if fam == "masked_huge":
        big = torch.randint(1, 10, (B, N), generator=g).float() * 1e8 * (torch.randint(0, 2, (B, N), generator=g).float() * 2 - 1)
        x = torch.where(mask, x, big)
    if fam == "peaked":
        mask[:, 0] = torch.rand(B, generator=g) < 0.5
        none = ~mask.any(-1)
        mask[none, 1 % N] = True
    return x, mask


def ref_dist(x64, mask, T, clip):
    """float64 masked softmax at temperature (the 'unfiltered distribution')."""
    import torch

    z = x64.clone()
    if clip > 0:
        z = torch.tanh(z) * clip
    z = z / T
    z = z.masked_fill(~mask, float("-inf"))
    return torch.softmax(z, -1), z


def run_case(ctx, case):
    if case.get("kind") == "start_rule":
        from vlib import c12impl

        ctx.count("c10_start_rule_cases")
        return c12impl.starts_case(ctx, case)
    import torch
    from tensordict import TensorDict

    from rl4co.utils import decoding as D

    x, mask = make_logits(case)
    B, N = x.shape
    T, p, clip = case["T"], case["p"], case["clip"]
    k = case["k"]
    k = N if k == "N" else (N + 5 if k == "N+5" else k)
    sig_base = dict(fam=case["fam"], k=("0" if k == 0 else "k>0"), p=("0" if p == 0 else ("tiny" if p <= 1e-6 else ("1" if p >= 1 else "mid"))), clip=clip > 0)

    # ---- the observed call ---------------------------------------------------------------
    lp = D.process_logits(x.clone(), mask.clone(), temperature=T, top_p=p, top_k=k, tanh_clipping=clip)
    ctx.count("process_logits_calls")
    ctx.evaluation(B)
    probs = lp.double().exp()
    pref, zref = ref_dist(x.double(), mask, T, clip)
    # what the library feeds to the filters (float32), used only to decide ties
    z32 = x.clone()
    if clip > 0:
        z32 = torch.tanh(z32) * clip
    z32 = (z32.masked_fill(~mask, float("-inf"))) / T

    # float32 conditioning: the scaled logits the softmax sees carry a representation error of half an ulp of their
    # magnitude (|x/T| ~ 1e4 -> 5e-4), which moves probabilities by up to ~2 ulp relative to the exact-arithmetic reference
    import math

    zfin = z32[torch.isfinite(z32)].abs()
    zmag = float(zfin.max()) if zfin.numel() else 1.0
    cond = 2.0 * 2.0 ** (math.floor(math.log2(max(zmag, 1e-30))) - 23)

    nfeas = mask.sum(-1)
    if (nfeas >= 2).any() and ((~mask).any() or k > 0 or 0 < p < 1):
        ctx.nontrivial_case(case)
    ctx.sample(dict(case=case, logits_row0=x[0], mask_row0=mask[0], logprobs_row0=lp[0]))

    def viol(law, row, msg, **extra):
        ctx.violation(dict(sig_base, law=law), f"{law}: {msg}", dict(row=row, logits=x[row], mask=mask[row], T=T, top_k=k, top_p=p, clip=clip, logprobs=lp[row], **extra))

    for b in range(B):
        pr = probs[b]
        # L0 finite / NaN sanitizer
        if torch.isnan(lp[b]).any():
            viol("nan", b, "log-probabilities contain NaN")
            continue
        # L1 normalised
        s = float(pr.sum())
        ctx.count("law_normalised")
        if abs(s - 1.0) > 1e-5:
            viol("normalised", b, f"sum of probabilities = {s}")
        # L2 zero mass on masked
        ctx.count("law_masked_zero")
        if (lp[b][~mask[b]] > float("-inf")).any():
            viol("masked_mass", b, f"masked action has log-probability {float(lp[b][~mask[b]].max())}")
        # L3 most likely feasible action kept
        ctx.count("law_argmax_kept")
        zmax = z32[b].max()
        top = (z32[b] == zmax) & mask[b]
        if not (lp[b][top] > float("-inf")).any():
            viol("argmax_kept", b, "no most-likely feasible action has positive probability")
        kept = lp[b] > float("-inf")  # support (exp() may underflow for huge gaps; -inf is the filter's mark)
        # L4 top-k: at most k kept, ties with the k-th value aside
        if k > 0:
            ctx.count("law_topk")
            kk = min(k, N)
            vals = torch.sort(z32[b], descending=True).values
            kth = vals[kk - 1]
            allowed = int((z32[b] >= kth).sum()) if torch.isfinite(kth) else int(mask[b].sum())
            if int(kept.sum()) > max(allowed, 0):
                viol("topk_count", b, f"{int(kept.sum())} actions kept, top_k={k} allows {allowed} (ties included)")
            # nothing strictly inside the top-k (above the k-th value) may be dropped by top-k alone
            if p == 0 or p >= 1:
                must = (z32[b] > kth) & mask[b] if torch.isfinite(kth) else mask[b]
                if (must & ~kept).any():
                    viol("topk_dropped_inside", b, "an action strictly above the k-th value was removed")
        # L5 top-p: kept mass (w.r.t. the distribution top-p is applied to) >= p
        if 0 < p:
            ctx.count("law_topp")
            base = pref[b].clone()
            if k > 0:
                kk = min(k, N)
                kth = torch.sort(z32[b], descending=True).values[kk - 1]
                inside = (z32[b] >= kth) & mask[b] if torch.isfinite(kth) else mask[b]
                base = torch.where(inside, base, torch.zeros_like(base))
                base = base / base.sum()
            mass = float(base[kept].sum())
            if mass < min(p, 1.0) - 1e-5 - cond:
                viol("topp_mass", b, f"kept mass {mass} < top_p {p}")
        if k == 0 and (p == 0):
            # L6 unfiltered: must equal the float64 masked softmax
            ctx.count("law_matches_reference")
            err = float((pr - pref[b]).abs().max())
            if err > 1e-5 + cond:
                viol("reference_mismatch", b, f"max |p - p_ref| = {err}")
        # monotone: kept probabilities ordered like logits (filters never reorder)
        ctx.count("law_order")
        idx = torch.nonzero(kept).flatten()
        if idx.numel() >= 2:
            zz, pp = z32[b][idx], pr[idx]
            o = zz.argsort()
            if (pp[o][1:] < pp[o][:-1] - 1e-7).any():
                viol("order", b, "probabilities of kept actions are not monotone in the logits")

    # ---- the same values in other memory layouts / precisions ----------------------------------
    # (decoders hand over whatever their last op produced: transposed or strided views, double precision under Float64 runs)
    if not torch.isnan(lp).any():
        big = torch.zeros(B, 2 * N)
        big[:, ::2] = x
        variants = {"transposed_view": x.t().contiguous().t(), "strided_view": big[:, ::2], "permuted_3d": x.reshape(B, 1, N).expand(B, 2, N).permute(1, 0, 2)[0]}
        for vn, xv in variants.items():
            assert torch.equal(xv, x)
            lpv = D.process_logits(xv, mask.clone(), temperature=T, top_p=p, top_k=k, tanh_clipping=clip)
            ctx.count("layout_variant_calls")
            if lpv.shape != lp.shape or not torch.allclose(lpv, lp, rtol=0, atol=1e-6, equal_nan=True) or not torch.equal(lpv > float("-inf"), lp > float("-inf")):
                bad_rows = torch.nonzero(((lpv > float("-inf")) != (lp > float("-inf"))).any(-1)).flatten().tolist()
                ctx.violation(dict(sig_base, law="layout_dependent", layout=vn, contiguous=bool(xv.is_contiguous())), f"process_logits gives another distribution for the same logits held in a {vn} (rows with another support: {bad_rows[:4]})",
                              dict(logits=x[0], mask=mask[0], T=T, top_k=k, top_p=p, clip=clip, lp=lp[0], lp_variant=lpv[0]))
                break
        # double precision, values not representable in float32 (distinct within float32 spacing)
        g64 = torch.Generator().manual_seed(case["s"] + 7)
        x64 = x.double() + (torch.rand(B, N, generator=g64, dtype=torch.float64) - 0.5) * 1e-9 * x.abs().double().clamp(min=1.0)
        lp64 = D.process_logits(x64.clone(), mask.clone(), temperature=T, top_p=p, top_k=k, tanh_clipping=clip)
        ctx.count("float64_calls")
        z64 = x64.clone()
        if clip > 0:
            z64 = torch.tanh(z64) * clip
        z64 = z64.masked_fill(~mask, float("-inf")) / T
        for b in range(B):
            if torch.isnan(lp64[b]).any():
                ctx.violation(dict(sig_base, law="nan", dtype="float64"), "log-probabilities of float64 logits contain NaN", dict(row=b, logits=x64[b], mask=mask[b], T=T, top_k=k, top_p=p, clip=clip))
                break
            if abs(float(lp64[b].exp().sum()) - 1.0) > 1e-6 or bool((lp64[b][~mask[b]] > float("-inf")).any()):
                ctx.violation(dict(sig_base, law="normalised", dtype="float64"), "float64 logits: distribution not normalised / mass on a masked action", dict(row=b))
                break
            keptv = lp64[b] > float("-inf")
            if not bool((keptv & (z64[b] == z64[b].max())).any()):  # (clipping saturates large scores into ties: any maximiser will do)
                ctx.violation(dict(sig_base, law="argmax_kept", dtype="float64"), "float64 logits: the most likely feasible action was filtered out", dict(row=b, logits=x64[b], mask=mask[b], top_k=k, top_p=p))
                break
            if k > 0 and (p == 0 or p >= 1):
                # distinct values (clipping may merge some): exactly min(k, #feasible) survive unless values tie after clipping
                want = min(k, int(mask[b].sum()))
                vals = torch.sort(z64[b], descending=True).values
                tie = want < N and vals[want - 1] == vals[min(want, N - 1)] and want < int(mask[b].sum())
                if not tie and int(keptv.sum()) != want:
                    ctx.violation(dict(sig_base, law="topk_count", dtype="float64"), f"float64 logits: {int(keptv.sum())} actions kept with top_k={k} and {int(mask[b].sum())} feasible (expected {want})", dict(row=b, logits=x64[b], mask=mask[b]))
                    break

    # ---- greedy / sampling on this distribution ---------------------------------------------
    if not torch.isnan(lp).any():
        sel = D.DecodingStrategy.greedy(lp, mask)
        ctx.count("greedy_calls")
        for b in range(B):
            if not (lp[b, sel[b]] >= lp[b].max()) or not mask[b, sel[b]]:
                ctx.violation(dict(sig_base, law="greedy_argmax"), "greedy did not return a maximiser / feasible action", dict(row=b, logprobs=lp[b], sel=int(sel[b])))
        torch.manual_seed(case["s"])
        for _ in range(6):
            sel = D.DecodingStrategy.sampling(lp, mask)
            ctx.count("sampling_calls")
            bad = (~mask.gather(1, sel[:, None]).squeeze(1)) | (lp.gather(1, sel[:, None]).squeeze(1) == float("-inf"))
            if bad.any():
                b = int(torch.nonzero(bad)[0])
                ctx.violation(dict(sig_base, law="sample_positive"), "sampling returned an action of zero probability / masked", dict(row=b, logprobs=lp[b], sel=int(sel[b])))
        # the helper PointerNetwork / MatNet / MDAM / EAS decoders call, with every documented decode-type name
        for dt in ("greedy", "multistart_greedy"):
            dec = D.decode_logprobs(lp, mask, dt)
            ctx.count("decode_logprobs_calls")
            if (lp.gather(1, dec[:, None]).squeeze(1) < lp.max(-1).values).any():
                ctx.violation(dict(sig_base, law="greedy_argmax", via="decode_logprobs", decode_type=dt), f"decode_logprobs({dt}) did not return a maximiser", None)
        for dt in ("sampling", "multistart_sampling"):
            dec = D.decode_logprobs(lp, mask, dt)
            ctx.count("decode_logprobs_calls")
            if (~mask.gather(1, dec[:, None]).squeeze(1)).any() or (lp.gather(1, dec[:, None]).squeeze(1) == float("-inf")).any():
                ctx.violation(dict(sig_base, law="sample_positive", via="decode_logprobs", decode_type=dt), f"decode_logprobs({dt}) returned a masked / zero-probability action", None)

        # ---- through the Strategy objects (what policies use) --------------------------------
        for name in ("greedy", "sampling"):
            strat = D.get_decoding_strategy(name, temperature=T, top_p=p, top_k=k, tanh_clipping=clip)
            td = TensorDict({"action_mask": mask.clone()}, batch_size=[B])
            td2 = strat.step(x.clone(), mask.clone(), td)
            ctx.count("strategy_step_calls")
            a = td2["action"]
            stored = strat.logprobs[-1]
            exp = lp.gather(1, a[:, None]).squeeze(1)
            if not mask.gather(1, a[:, None]).all():
                ctx.violation(dict(sig_base, law="strategy_infeasible", strat=name), "strategy emitted an infeasible action", dict(actions=a, mask=mask))
            if (stored - exp).abs().max() > 1e-6 or (stored == float("-inf")).any():
                ctx.violation(dict(sig_base, law="strategy_logprob", strat=name), "stored log-prob is not that of the chosen action", dict(stored=stored, expected=exp))
            if name == "greedy" and (exp < lp.max(-1).values).any():
                ctx.violation(dict(sig_base, law="greedy_argmax", strat=name), "Greedy.step did not choose a maximiser", None)

    # ---- shift invariance -----------------------------------------------------------------------
    pow2 = T in (0.25, 0.5, 1.0, 2.0, 4.0)
    if clip == 0 and ((k == 0 and (p == 0 or p >= 1)) or pow2):
        for c in (8.0, -64.0, 1024.0):
            if case["fam"] in ("huge", "neg_huge") and abs(c) < 1:
                continue
            xs = x + c
            if not torch.equal(xs - c, x):
                continue  # shift not exact in float32 for this data: no verdict from it
            lp2 = D.process_logits(xs.clone(), mask.clone(), temperature=T, top_p=p, top_k=k, tanh_clipping=0)
            ctx.count("shift_pairs")
            if torch.isnan(lp).any() or torch.isnan(lp2).any():
                if torch.isnan(lp).any() != torch.isnan(lp2).any():
                    ctx.violation(dict(sig_base, law="shift_nan"), "NaN appears only with/without the shift", dict(c=c))
                continue
            # tolerance from float32 spacing of the scaled, shifted logits
            scale = float((xs.abs().max() / T))
            tol = 1e-5 + 8 * scale * 2.0**-23 * (1 if pow2 else 4)
            sup1, sup2 = lp > float("-inf"), lp2 > float("-inf")
            if pow2:
                if not torch.equal(sup1, sup2):
                    ctx.violation(dict(sig_base, law="shift_support"), f"support changes under constant shift {c}", dict(c=c, lp=lp[0], lp2=lp2[0], logits=x[0], mask=mask[0], T=T, top_k=k, top_p=p))
                    continue
            else:
                if not torch.equal(sup1, sup2):
                    ctx.ambiguous += 1
                    continue
            d = (lp.double().exp() - lp2.double().exp()).abs().max()
            if float(d) > tol * 10:
                ctx.violation(dict(sig_base, law="shift_value"), f"probabilities change by {float(d)} under constant shift {c}", dict(c=c, T=T))

MANIFEST = {
    "text": "Held on every observed call of the real process_logits / greedy / sampling / Strategy.step over a grid of "
            "logit families x masks x temperature x top-k x top-p x clipping (thousands of rows per run, all checked "
            "against float64 statements of the distribution laws). Exploration: the input space is infinite; reach comes "
            "from structured corner families (ties, one feasible action, 1e4 magnitudes, nucleus inside the masked tail, "
            "top_p down to 1e-8). Also: the same logits presented as transposed / strided / permuted views must give the same distribution; float64 logits not representable in float32 (laws checked in double precision).",
    "note": "Trusts torch softmax/tanh in float64 for the reference distribution; ties are judged on the library's own "
            "float32 scaled logits; shift invariance only with tanh_clipping=0 and exactly representable shifts.",
    "technique": "runtime monitoring: law-checking oracle (float64) on every call of the real decoding functions",
    "design_ref": "DESIGN.md section 4 / C10",
}
