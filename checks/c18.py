"""C18 — generators emit well-formed, solvable instances within documented bounds."""
PROPERTY = "C18"
LEVEL = "exploration"
RULE = (
    "case = one generated batch (16 instances) of one generator parameterisation (19 generators; sizes on and off the "
    "capacity tables; capacity overrides; scaled/unscaled windows; OP prize types; ATSP tmat on/off; all 19 MTVRP "
    "presets; scheduling shapes with padded batches; FLP/MCP quotas; alternative location distributions). Every documented "
    "predicate (keys, shapes, coordinate bounds, integer demands in range and <= capacity, capacity table, window "
    "order / reachability / time to return, pairing, triangle inequality, technician coverage, per-op eligibility, preset "
    "flags) is one evaluation; then two mask-confined episodes (first-true and mixed hostile choosers) must complete from "
    "every instance. Non-trivial = distinct (parameterisation, seed)"
)
ASSUMPTIONS = [
    "predicates are those stated in generator docstrings and in the property text; CVRPTW integer truncation allows windows to undershoot the float travel time by < 1 time unit",
    "solvability = completion within 8n+60 mask-confined steps under two chooser regimes",
    "DPP/MDPP generators need chip data files that are unavailable offline: not covered",
]
REQUIRED_COUNTERS = ["c18_retasked_generators", "c18_batches", "c18_predicates", "c18_episodes", "c18_initial_solutions"]
MIN_NONTRIVIAL = {"quick": 400, "thorough": 6000}
WORKERS = {"quick": 14, "thorough": 16}
BUDGET_S = {"quick": 400, "thorough": 3000}
THOROUGH_ROUNDS = 2


def cases(tier, seed):
    import random

    from vlib import envzoo

    rnd = random.Random(seed * 89 + 18)
    out = []
    q = tier == "quick"
    reps = 2 if q else 15
    sizes = (5, 10, 17, 20) if q else (3, 5, 7, 10, 17, 20, 33, 50, 75, 100)
    for cfg in envzoo.routing_configs(sizes):
        for r in range(reps):
            out.append(dict(cfg=cfg, B=16, s=rnd.randrange(10**6)))
    for n in sizes:
        for r in range(reps):
            out.append(dict(cfg=dict(env="cvrp", n=n, capacity=rnd.choice([15, 30, 37, 50])), B=16, s=rnd.randrange(10**6)))
            out.append(dict(cfg=dict(env="atsp", n=n, tmat=False), B=8, s=rnd.randrange(10**6)))
            for pt in ("dist", "unif", "const"):
                out.append(dict(cfg=dict(env="op", n=n, prize_type=pt), gp=dict(prize_type=pt), B=16, s=rnd.randrange(10**6)))
    # sampler parameterisations: non-default coordinate bounds, the named point distributions ('center', 'corner', a constant),
    # separate depot distributions, ready-made sampler objects - coordinates must stay inside the generator's [min_loc, max_loc]
    boxes = [(0.25, 0.75), (0.5, 1.0), (0.0, 0.4), (0.6, 0.9)]
    for env_ in ("tsp", "cvrp", "sdvrp", "op", "pctsp", "spctsp", "pdp", "mtsp", "svrp"):
        for r in range(reps):
            lo, hi = rnd.choice(boxes)
            variants = [dict(min_loc=lo, max_loc=hi), dict(min_loc=lo, max_loc=hi, loc_distribution="uniform"), dict(min_loc=lo, max_loc=hi, loc_distribution="center"),
                        dict(min_loc=lo, max_loc=hi, loc_distribution="corner"), dict(min_loc=lo, max_loc=hi, loc_distribution=round((lo + hi) / 2, 3)),
                        dict(loc_sampler=[0.1, 0.3])]
            if env_ not in ("tsp", "mtsp"):
                variants += [dict(min_loc=lo, max_loc=hi, depot_distribution="center"), dict(min_loc=lo, max_loc=hi, depot_distribution="corner"),
                             dict(min_loc=lo, max_loc=hi, depot_distribution="uniform"), dict(depot_sampler=[0.45, 0.55])]
            for gp in variants:
                if env_ == "op" and not isinstance(gp.get("loc_distribution", "uniform"), str) or (env_ == "op" and gp.get("loc_distribution") in ("center", "corner")):
                    gp = dict(gp, prize_type="const")  # distance-based prizes are undefined (0/0) when every node sits on the depot
                n_ = rnd.choice([6, 10, 20])
                out.append(dict(cfg=dict(env=env_, n=n_ + (n_ % 2 if env_ == "pdp" else 0), sampler="|".join(f"{k}={v}" for k, v in sorted(gp.items()) if k not in ("min_loc", "max_loc"))), gp=gp, B=16, s=rnd.randrange(10**6)))
    # documented generator switches no default configuration sets: FJSP with independent processing times / narrow eligibility,
    # FLP in coordinate boxes that are not anchored at the origin
    for me in (1, 2, 3):
        for r in range(reps):
            out.append(dict(cfg=dict(env="fjsp", jobs=5, mas=4, min_ops=2, max_ops=4, mask_no_ops=True, n=20, same_mean=False, max_elig=me, pmin=1, pmax=rnd.choice([9, 20])), B=64, s=rnd.randrange(10**6)))
            out.append(dict(cfg=dict(env="fjsp", jobs=5, mas=4, min_ops=2, max_ops=4, mask_no_ops=True, n=20, same_mean=True, max_elig=me, min_elig=1, pmin=2, pmax=9), B=32, s=rnd.randrange(10**6)))
    for box in ((-1.0, 1.0), (-3.0, -1.0), (2.0, 5.0), (-0.5, 0.25)):
        for r in range(reps):
            out.append(dict(cfg=dict(env="flp", n=rnd.choice([8, 20]), k=3, box=box), B=16, s=rnd.randrange(10**6)))
    # odd requested sizes for the paired problems: the generators document rounding up to the next even number
    for env_ in ("pdp", "mdcpdp"):
        for n_ in ((5, 9) if q else (3, 5, 7, 9, 11, 21)):
            for r in range(reps):
                extra = dict(reward_mode="lateness", problem_mode="close", dist_mode="L2") if env_ == "mdcpdp" else {}
                out.append(dict(cfg=dict(env=env_, n=n_, odd=True, **extra), B=8, s=rnd.randrange(10**6)))
    for cfg in envzoo.sched_configs(tier) + [c for c in envzoo.select_configs(tier) if c["env"] in ("flp", "mcp", "dpp", "mdpp")]:
        for r in range(reps * 2):
            out.append(dict(cfg=cfg, B=16, s=rnd.randrange(10**6)))
    for items, sets, k, mn, mx in ((6, 4, 2, 1, 2), (8, 6, 3, 2, 6), (20, 10, 4, 3, 3)):
        for r in range(reps * 2):
            out.append(dict(cfg=dict(env="mcp", n=sets, items=items, k=k, min_size=mn, max_size=mx), B=16, s=rnd.randrange(10**6)))
    # documented alternative location distributions (all promise coordinates inside the unit square) and MTVRP speeds
    dists = [dict(loc_distribution="cluster", n_cluster=3), dict(loc_distribution="mixed", n_cluster_mix=1), dict(loc_distribution="mix_distribution", n_cluster=3, n_cluster_mix=1),
             dict(loc_distribution="gaussian_mixture", num_modes=3, cdist=10), dict(loc_distribution="mix_multi_distributions")]
    for gp in dists:
        for env_ in ("tsp", "cvrp"):
            for r in range(reps * 2):
                out.append(dict(cfg=dict(env=env_, n=rnd.choice([20, 50]), dist=gp["loc_distribution"]), gp=gp, B=64 if q else 256, s=rnd.randrange(10**6)))
    # systematic pass over generator arguments that no other case sets (documented options): non-default ranges and switches
    sweeps = [
        ("atsp", dict(min_dist=0.5, max_dist=2.0), {}), ("atsp", dict(max_dist=3.0), dict(tmat=False)), ("atsp", dict(min_dist=0.2, max_dist=0.4), dict(tmat=False)),
        ("cvrp", dict(min_demand=3, max_demand=5), {}), ("cvrp", dict(min_demand=1, max_demand=3, capacity=9), dict(capacity=9)), ("sdvrp", dict(min_demand=5, max_demand=9), {}),
        ("cvrptw", dict(max_time=240, max_loc=60.0, scale=False), dict(scale=False)), ("cvrptw", dict(max_time=600, scale=True), dict(scale=True)), ("cvrptw", dict(max_loc=80.0, scale=False), dict(scale=False)),
        ("svrp", dict(min_skill=2.0, max_skill=5.0), {}), ("svrp", dict(tech_costs=[1, 5]), {}), ("svrp", dict(tech_costs=[2, 3, 4, 9]), {}),
        ("pctsp", dict(penalty_factor=1.0), {}), ("pctsp", dict(penalty_factor=6.0), {}), ("op", dict(max_length=1.5), dict(max_length=1.5)), ("op", dict(max_length=5.0, prize_type="unif"), dict(max_length=5.0, prize_type="unif")),
        ("mtsp", dict(min_num_agents=1, max_num_agents=4), dict(agents=(1, 4))),
        ("mtvrp", dict(variant_preset="all", scale_demand=False), dict(preset="all")), ("mtvrp", dict(variant_preset="vrpb", scale_demand=False), dict(preset="vrpb")),
        ("mtvrp", dict(variant_preset="vrpb", backhaul_ratio=0.5), dict(preset="vrpb")), ("mtvrp", dict(variant_preset="ovrpbltw", backhaul_ratio=0.8, min_backhaul=2, max_backhaul=4), dict(preset="ovrpbltw")),
        ("mtvrp", dict(variant_preset="all", capacity=55), dict(preset="all")), ("mtvrp", dict(variant_preset="cvrp", min_demand=3, max_demand=6), dict(preset="cvrp")),
        ("mtvrp", dict(variant_preset="all", use_combinations=False), dict(preset="single_feat")), ("mtvrp", dict(variant_preset=None, subsample=False), dict(preset="ovrpbltw")),
        ("mtvrp", dict(variant_preset="vrpl", distance_limit=2.9), dict(preset="vrpl")), ("mtvrp", dict(variant_preset="vrptw", max_time=6.0), dict(preset="vrptw")),
        ("mtvrp", dict(variant_preset=None, subsample=True, use_combinations=True) if False else dict(variant_preset="vrpltw", distance_limit=3.5, max_time=5.0), dict(preset="vrpltw")),
    ]
    for env_, gp, extra in sweeps:
        for r in range(reps * 2):
            n_ = rnd.choice([6, 10, 20])
            out.append(dict(cfg=dict(env=env_, n=n_, sweep="|".join(f"{k}={v}" for k, v in sorted(gp.items()) if k != "variant_preset"), **extra), gp=gp, B=16, s=rnd.randrange(10**6)))
    # volume: rare data-dependent branches of the time-window construction (exact ties of the sampled bounds) need tens of thousands
    # of instances to be visited; tight horizons make them more frequent
    for gp_ in (dict(max_time=430, scale=False), dict(scale=False), dict(max_time=430, scale=True)):
        for r in range(2 if q else 6):
            out.append(dict(cfg=dict(env="cvrptw", n=20, scale=gp_["scale"], volume=True), gp=gp_, B=8192, s=rnd.randrange(10**6)))
    # generator objects re-parameterised between batches (meta-learning over sizes: new num_loc and capacity on the same object)
    for env_ in ("cvrp", "sdvrp", "cvrptw", "tsp"):
        for (n1, n2) in ((10, 20), (20, 50), (50, 10), (20, 33)):
            for r in range(reps):
                import math as _m

                rt = dict(num_loc=n2)
                if env_ != "tsp":
                    rt["capacity"] = float(_m.ceil(30 + n2 / 5) if n2 >= 20 else 20)
                out.append(dict(cfg=dict(env=env_, n=n1, **({"scale": False} if env_ == "cvrptw" else {})), retask=rt, B=16, s=rnd.randrange(10**6)))
    for sp in (0.5, 1.5, 2.0):
        for preset in ("vrptw", "vrpltw", "ovrpbltw", "all"):
            for r in range(reps):
                out.append(dict(cfg=dict(env="mtvrp", n=rnd.choice([5, 10, 20]), preset=preset, speed=sp), gp=dict(variant_preset=preset, speed=sp, max_time=4.6 if sp >= 1 else 10.0), B=16, s=rnd.randrange(10**6)))
    # tiny batches: shape shortcuts and "max over the batch" slips only show when the batch is 1-2 instances
    small = [c for c in envzoo.routing_configs((6,)) if c["env"] != "mtvrp" or c["preset"] in ("all", "vrpbltw", "ovrp")]
    small += envzoo.sched_configs("quick") + [c for c in envzoo.select_configs("quick") if c["env"] in ("flp", "mcp")]
    for cfg in small:
        for B in (1, 2):
            for r in range(reps * 2):
                out.append(dict(cfg=cfg, B=B, s=rnd.randrange(10**6)))
    # initial solutions of the improvement environments, both documented construction modes
    for env_ in ("tsp_kopt", "pdp_ruin_repair"):
        for mode in ("random", "greedy"):
            for n in ((6, 10, 20) if q else (4, 6, 10, 20, 50)):
                for r in range(reps):
                    out.append(dict(kind="init", env=env_, n=n, init=mode, B=16, s=rnd.randrange(10**6)))
    return out


def run_case(ctx, case):
    from vlib import c18impl

    (c18impl.init_case if case.get("kind") == "init" else c18impl.case)(ctx, case)


MANIFEST = {
    "text": "Every generated batch observed (19 generators x parameter grids x seeds) satisfied the documented predicates - keys, "
            "shapes, bounds, integer demands <= capacity, capacity table incl. off-table sizes and overrides, CVRPTW window "
            "order/reachability/return time (scaled and unscaled), ATSP triangle inequality, SVRP coverage, MTVRP preset "
            "flags and limits, FJSP/JSSP eligibility and padding, MCP set hygiene, initial tours of the improvement envs (random and greedy construction: one cycle through all nodes, "
            "pickups before deliveries) - and every instance completed under two "
            "mask-confined chooser regimes. Exploration over seeds x parameterisations. Also: sampler parameterisations (non-default boxes, center / corner / constant, depot distributions, sampler objects), a systematic sweep over generator arguments (ATSP range, demand ranges, CVRPTW horizon, SVRP skills/costs, PCTSP penalty, OP length, MTVRP scale_demand / backhaul / capacity / combinations / subsample / limits), generator objects re-parameterised between batches.",
    "note": "Predicates are evaluated by the harness on the raw generator output; solvability reuses the C02 episode driver.",
    "technique": "runtime monitoring: predicate monitors on every generator output + bounded-progress episode monitor",
    "design_ref": "DESIGN.md section 4 / C18",
}
MANIFEST["text"] += ' Round 7: odd requested sizes for the paired problems (documented rounding up), MCP set sizes against the configured range.'
