"""C11 — returned log-likelihoods are those of the returned actions (evaluate round trip)."""
PROPERTY = "C11"
LEVEL = "exploration"
RULE = (
    "case = one real policy forward (policy x env x decode configuration x batch) under taps on the decoder output (raw "
    "logits + mask, cloned before process_logits overwrites them) and on the DecodingStrategy instance. Per step and row "
    "the monitor recomputes the masked, clipped, tempered, normalised distribution in float64 from the tapped logits and "
    "compares the returned per-step log-prob of the action actually taken (1e-4); forced multi-start first moves and "
    "post-finish padding steps must contribute 0; actions must be unmasked; returned entropy == entropy of the recomputed "
    "distributions; summed ll == sum of steps; then the returned actions are fed back (evaluate) on the same batch in the "
    "same mode: per-step log-probs, reward and entropy must be reproduced; multi-start / multi-sample rollouts are evaluated "
    "on the replicated instances (steps after the forced move); the step-wise PPO policy (L2DPolicy4PPO) is driven through "
    "act() -> evaluate() on FJSP/JSSP: same log-prob (ratio 1), equal to the clipped masked reference, correct entropy. One evaluation per rollout row; non-trivial = "
    "distinct (case, action matrix)"
)
ASSUMPTIONS = [
    "top-k / top-p filtering inside the reference uses the library's filter functions on float64 inputs (their laws are C10's subject)",
    "evaluate round trip is done on the same batch in the same module mode (train-mode batch norm over another batch is a different function)",
    "MDAM and PointerNetwork do not go through DecodingStrategy.step per decoder call in a way the tap can align; MDAM's normalisation is covered via C14 (fixed defect), PointerNetwork via the round trip only when the tap aligns",
    "beam search is C13's subject",
]
REQUIRED_COUNTERS = ["c11_warmup_calls", "c11_select_best_roundtrips", "c11_ffsp_multistage_decodes", "c11_ffsp_stage_changes", "c11_minibatch_roundtrips", "c11_forwards", "c11_step_rows", "c11_forced_steps", "c11_padding_step_rows", "c11_entropy_checked", "c11_sum_checked", "c11_roundtrips", "c11_roundtrips_replicated", "c11_stepwise_rows", "c11_flagged_function_calls", "c11_flagged_policy_rows"]
MIN_NONTRIVIAL = {"quick": 900, "thorough": 8000}
WORKERS = {"quick": 14, "thorough": 16}
BUDGET_S = {"quick": 500, "thorough": 3000}
THOROUGH_ROUNDS = 3

COMBOS = (
    [("am", e, {}) for e in ("tsp", "cvrp", "cvrptw", "sdvrp", "svrp", "op", "pctsp", "spctsp", "pdp", "mtsp", "mtvrp", "mdcpdp", "smtwtp")]
    + [("am_instnorm", "tsp", {}), ("am_layernorm", "cvrp", {}), ("am_layernorm", "tsp", {}), ("am_instnorm", "cvrp", {}), ("am_moe", "cvrp", {}), ("am_moe", "mtvrp", {}), ("ham", "pdp", {}), ("symnco", "tsp", {}), ("symnco", "cvrp", {}),
       ("matnet", "atsp", {}), ("polynet", "tsp", {}), ("polynet", "cvrp", {}), ("nar", "tsp", {}), ("nar", "cvrp", {}), ("nar", "op", {}), ("am_simple_sdpa", "cvrp", {}), ("am_simple_sdpa", "tsp", {}), ("am_simple_sdpa", "pctsp", {}),
       ("l2d", "fjsp", dict(jobs=3, mas=2, min_ops=1, max_ops=3, mask_no_ops=True)), ("l2d", "jssp", dict(jobs=3, mas=3, one2one=True, mask_no_ops=True)),
       ("am", "dpp", dict(size=5, kmin=3, kmax=10, decaps=6)), ("am", "mdpp", dict(size=10, kmin=1, kmax=10, decaps=20, reward_type="minmax"))]
)
DECODES = [
    dict(decode_type="greedy"),
    dict(decode_type="sampling"),
    dict(decode_type="sampling", temperature=1.7, tanh_clipping=10.0),
    dict(decode_type="sampling", temperature=0.6, top_k=3),
    dict(decode_type="sampling", top_p=0.8),
    dict(decode_type="sampling", num_samples=3),
    dict(decode_type="multistart_greedy", num_starts=3),
    dict(decode_type="multistart_sampling", num_starts=2, temperature=1.3),
]
NO_MULTISTART = {"mtsp", "smtwtp", "fjsp", "jssp", "mdcpdp", "atsp", "dpp", "mdpp"}


def cases(tier, seed):
    import random

    rnd = random.Random(seed * 73 + 11)
    out = []
    q = tier == "quick"
    for kind, env, extra in COMBOS:
        for n in ((6, 9) if q else (5, 6, 10, 20)):
            for dk in DECODES:
                if dk["decode_type"].startswith("multistart") and (env in NO_MULTISTART or kind in ("l2d", "matnet", "polynet")):
                    continue
                if dk.get("num_samples") and (env in ("mtsp", "dpp", "mdpp") or kind in ("polynet", "nar")):  # AM x mTSP / DPP / MDPP raise for any replicated decoding (embeddings not multi-start aware): crashes, not claimed
                    continue
                for B in ((1, 4) if q else (1, 2, 5, 8)):
                    for r in range(2 if q else 4):
                        # train mode (what REINFORCE / PPO rollouts run in) for the attention models: every second case
                        tm = bool(r % 2) and kind in ("am", "am_instnorm", "am_layernorm")
                        out.append(dict(policy=kind, env=env, n=n, B=B, s=rnd.randrange(10**6), wseed=r, extra=extra, decode=dk, train_mode=tm, warm=(rnd.random() < 0.35)))
    for env in ("tsp", "cvrp", "cvrptw", "sdvrp", "svrp", "op", "mtvrp"):
        for (n, n2) in (((6, 11), (10, 7)) if q else ((6, 11), (10, 7), (10, 20))):
            for dk in DECODES:
                out.append(dict(policy="am", env=env, n=n, inst_n=n2, B=rnd.choice([1, 4]), s=rnd.randrange(10**6), wseed=0, extra={}, decode=dk, train_mode=False))
    for env, extra in (("fjsp", dict(jobs=3, mas=2, min_ops=1, max_ops=3, mask_no_ops=True)), ("jssp", dict(jobs=3, mas=3, one2one=True, mask_no_ops=True))):
        for B in ((1, 4) if q else (1, 2, 4, 8)):
            for clip in (10, 0, 3):
                for r in range(2 if q else 6):
                    out.append(dict(kind="stepwise", env=env, extra=extra, B=B, clip=clip, s=rnd.randrange(10**6), wseed=r))
    # best-of-k decoding: returned reward / log-probs / actions must belong together (state-read rewards: L2D on FJSP / JSSP, AM on MDCPDP)
    sb = [("l2d", "fjsp", dict(jobs=3, mas=2, min_ops=1, max_ops=3, mask_no_ops=True), ("sampling",)), ("l2d", "jssp", dict(jobs=3, mas=3, one2one=True, mask_no_ops=True), ("sampling",)),
          ("am", "mdcpdp", {}, ("sampling",)), ("am", "tsp", {}, ("sampling", "multistart_sampling", "multistart_greedy")), ("am", "cvrp", {}, ("sampling", "multistart_greedy")),
          ("am", "smtwtp", {}, ("sampling",)), ("am", "sdvrp", {}, ("sampling", "multistart_sampling"))]
    for kind, env, extra, decs in sb:
        for dec in decs:
            for B in ((1, 4) if q else (1, 2, 5)):
                for r in range(2 if q else 5):
                    out.append(dict(kind="select_best", policy=kind, env=env, extra=extra, n=6, B=B, k=rnd.choice([2, 3, 5]), decode=dec, s=rnd.randrange(10**6), wseed=r))
    for extra in (dict(stages=2, mas=2, jobs=4, flatten=False), dict(stages=3, mas=2, jobs=5, flatten=False)):
        for dec in ("sampling", "greedy"):
            for r in range(3 if q else 10):
                out.append(dict(kind="ffsp_multistage", extra=extra, B=rnd.choice([1, 4, 6]), decode=dec, s=rnd.randrange(10**6), wseed=r))
    # beam search as a decoding mode (per-step log-probs, their sum and the entropy of the returned beams), and the EAS
    # rollouts (sampled rows + one row forced along the incumbent) built from the same helpers
    for kind, env in (("am", "tsp"), ("am", "cvrp"), ("am", "sdvrp"), ("am", "pctsp"), ("nar", "tsp")):
        for n in ((6, 9) if q else (5, 6, 10, 20)):
            for W in (2, 3, 5):
                for B in ((1, 3) if q else (1, 2, 5)):
                    for sbb in (False, True):
                        out.append(dict(kind="beam", policy=kind, env=env, n=n, B=B, W=W, select_best=sbb, s=rnd.randrange(10**6), wseed=rnd.randrange(4)))
    for env in ("tsp",):  # forward_eas takes its forced starts modulo num_starts, which only names feasible nodes on TSP-like envs (DESIGN 11g)
        for n in ((6, 10) if q else (5, 6, 10, 20)):
            for B in ((1, 4) if q else (1, 2, 4, 7)):
                for it in (0, 1, 3):
                    for r in range(2 if q else 5):
                        out.append(dict(kind="eas", env=env, n=n, B=B, iter=it, s=rnd.randrange(10**6), wseed=r))
    # DeepACO's policy class in its training phase (multi-start sampling, outputs regrouped to [instance, ant])
    for env in ("tsp", "cvrp"):
        for n in ((6, 9) if q else (5, 6, 10, 20)):
            for B in ((1, 3) if q else (1, 2, 3, 5)):
                for K in (2, 4):
                    out.append(dict(kind="deepaco", env=env, n=n, B=B, ants=K, s=rnd.randrange(10**6), wseed=rnd.randrange(4)))
    for B in (1, 3, 6):
        for r in range(3 if q else 10):
            out.append(dict(kind="flagged", B=B, T=rnd.choice([4, 9]), N=rnd.choice([3, 7]), n=rnd.choice([6, 9]), s=rnd.randrange(10**6)))
    return out


def run_case(ctx, case):
    from vlib import c11impl

    {"stepwise": c11impl.stepwise_case, "flagged": c11impl.flagged_case, "select_best": c11impl.select_best_case, "ffsp_multistage": c11impl.ffsp_multistage_case, "beam": c11impl.beam_case, "eas": c11impl.eas_case, "deepaco": c11impl.deepaco_case}.get(case.get("kind"), c11impl.case)(ctx, case)


MANIFEST = {
    "text": "Held on every observed forward of AttentionModelPolicy (13 envs; batch/instance/layer norm), HAM, SymNCO, MatNet "
            "(pinned randomness), PolyNet and L2D under greedy, sampling (temperature, tanh clipping, top-k, top-p), "
            "multi-sample and multistart decoding: per step and row, the returned log-prob equals the float64 "
            "recomputation from the tapped decoder logits for the action actually taken; forced starts and padding "
            "contribute zero; entropy and sums agree; evaluate(actions) reproduces per-step log-probs, reward and entropy. "
            "Exploration over policies x envs x decode configurations x batches. Also: MoE policies, AM with the library's own attention function, AM on DPP/MDPP, the non-autoregressive heat-map machinery, train-mode rollouts, mini-batch evaluation round trips (PPO rows), best-of-k round trips on state-read-reward envs, the stage pairing of MatNet's multi-stage FFSP policy, models decoding instances of another size.",
    "note": "Taps are attached from the harness; zero tap hits make the check inconclusive.",
    "technique": "runtime monitoring: taps on decoder output and decoding strategy, per-step reference-distribution oracle, evaluate round-trip replay",
    "design_ref": "DESIGN.md section 4 / C11",
}
MANIFEST["text"] += " Rounds 7-8: beam search as a decoding mode, EAS rollouts (sampled rows + the row forced along the incumbent), DeepACO's training phase (log_likelihood[instance, ant])."
