"""C14 — inference is per-instance: batch composition never changes the answer."""
PROPERTY = "C14"
LEVEL = "exploration"
RULE = (
    "case = (policy, env, size, pool of 6-8 instances): each instance is decoded greedily ALONE (batch size 1, reference) "
    "and then inside batches: the whole pool, the pool reversed, random subsets of 2/3/5, three copies of itself, copies "
    "among strangers; policy in eval() under torch.inference_mode(). One evaluation = one (instance, context) comparison "
    "of actions (exact), reward (1e-5 rel) and log-likelihood (1e-4 rel); the same for best-of-k greedy multi-start "
    "decoding (select_best) of AttentionModelPolicy, whose per-instance result must not depend on the batch either. A solo decode whose smallest top-2 logit margin "
    "is < 1e-5 makes an action difference ambiguous (counted, no verdict). Non-trivial = distinct (policy, env, solo "
    "solution, context, batch size, position)"
)
ASSUMPTIONS = [
    "small untrained networks (embed 32, 1-2 layers): weights seeded, several weight seeds",
    "MatNet's per-forward random column embedding is pinned per instance (seeded from the instance's cost matrix) by "
    "substituting torch.rand inside MatNetInitEmbedding.forward only; without pinning two calls differ by design",
    "policies/envs combinations that the library does not support at all (no embedding registered) are not run",
]
REQUIRED_COUNTERS = ["c14_solo_padding_trimmed", "c14_eval_chunkings", "c14_solo_decodes", "c14_comparisons", "c14_ctx_pool", "c14_ctx_subset", "c14_ctx_copies"]
MIN_NONTRIVIAL = {"quick": 2500, "thorough": 30000}
WORKERS = {"quick": 14, "thorough": 16}
BUDGET_S = {"quick": 500, "thorough": 3000}
THOROUGH_ROUNDS = 3

COMBOS = (
    [("am", e, {}) for e in ("tsp", "cvrp", "cvrptw", "sdvrp", "svrp", "op", "pctsp", "spctsp", "pdp", "mtsp", "mtvrp", "mdcpdp", "smtwtp")]
    + [("am_instnorm", "tsp", {}), ("am_instnorm", "cvrp", {}), ("am_layernorm", "cvrp", {}), ("ptrnet", "tsp", {}), ("ham", "pdp", {}),
       ("symnco", "tsp", {}), ("symnco", "cvrp", {}), ("mdam", "tsp", {}), ("mdam", "cvrp", {}), ("mdam", "op", {}), ("mdam", "pctsp", {}),
       ("matnet", "atsp", {}), ("polynet", "tsp", {}), ("polynet", "cvrp", {}), ("nar", "tsp", {}), ("nar", "cvrp", {}), ("nar", "op", {}), ("am_simple_sdpa", "cvrp", {}), ("am_simple_sdpa", "tsp", {}), ("am_simple_sdpa", "pctsp", {}),
       ("l2d", "fjsp", dict(jobs=3, mas=2, min_ops=1, max_ops=3, mask_no_ops=True)), ("l2d", "jssp", dict(jobs=3, mas=3, one2one=True, mask_no_ops=True))]
)


def cases(tier, seed):
    import random

    rnd = random.Random(seed * 71 + 14)
    out = []
    q = tier == "quick"
    for kind, env, extra in COMBOS:
        for n in ((6, 10) if q else (5, 6, 10, 20, 50)):
            if kind == "matnet" and n > 30:
                continue  # MatNet's one-hot column embedding needs embed_dim >= number of nodes (zoo networks are 32 wide)
            for r in range(2 if q else 10):
                out.append(dict(policy=kind, env=env, n=n, m=6 if q else 8, s=rnd.randrange(10**6), wseed=r, extra=extra))
    # envs / policies with their own embeddings or decode loops that the grid above does not reach: AM on the decap placement
    # envs (synthetic PDN data), MatNet's multi-stage policy on the flexible flow shop (one encoder / decoder per stage)
    for kind, env, extra in (("am", "dpp", dict(size=5, kmin=3, kmax=10, decaps=6)), ("am", "mdpp", dict(size=10, kmin=1, kmax=10, decaps=20, reward_type="minmax")),
                             ("matnet_ffsp", "ffsp", dict(stages=2, mas=2, jobs=4, flatten=False)), ("matnet_ffsp", "ffsp", dict(stages=3, mas=2, jobs=5, flatten=False))):
        for r in range(3 if q else 10):
            out.append(dict(policy=kind, env=env, n=extra.get("size", 0) ** 2 or extra["jobs"] * extra["stages"], m=5 if q else 8, s=rnd.randrange(10**6), wseed=r, extra=extra))
    # a model / env constructed for one size decoding instances of another size (generalisation runs), size-agnostic envs
    for env in ("tsp", "cvrp", "cvrptw", "sdvrp", "svrp", "op", "mtvrp"):
        for (n, n2) in (((6, 11), (10, 7)) if q else ((6, 11), (10, 7), (10, 20), (20, 50))):
            for r in range(2 if q else 5):
                out.append(dict(policy="am", env=env, n=n, inst_n=n2, m=6 if q else 8, s=rnd.randrange(10**6), wseed=r, extra={}, **({"multistart": n2} if r % 2 else {})))
    # mixture-of-experts encoder/decoder (MVMoE) with non-trivial gates
    for env in ("tsp", "cvrp", "mtvrp"):
        for n in ((6, 10) if q else (6, 10, 20)):
            for r in range(2 if q else 6):
                out.append(dict(policy="am_moe", env=env, n=n, m=6 if q else 8, s=rnd.randrange(10**6), wseed=r, extra={}))
        out.append(dict(policy="am_moe_light", env=env, n=8, m=6, s=rnd.randrange(10**6), wseed=0, extra={}))
    # greedy decoding under logit filters (the log-likelihood then depends on the filter, which must stay per-row)
    for env in ("cvrp", "pctsp", "sdvrp", "op"):
        for dk in (dict(top_k=3), dict(top_p=0.9, temperature=0.7), dict(top_k=2, tanh_clipping=10.0)):
            for r in range(2 if q else 6):
                out.append(dict(policy="am", env=env, n=rnd.choice([8, 12]), m=6 if q else 8, s=rnd.randrange(10**6), wseed=r, extra={}, decode_kw=dk))
    for env in ("tsp", "cvrp", "sdvrp", "pctsp", "pdp", "op"):
        for n in ((6, 8) if q else (6, 8, 10, 20)):
            for r in range(2 if q else 6):
                k = n // 2 if env == "pdp" else n
                out.append(dict(policy="am", env=env, n=n, m=6 if q else 8, s=rnd.randrange(10**6), wseed=r, extra={}, multistart=k))
    # scheduling instances with different operation counts: alone, an instance carries no padding; in a batch it is padded to the largest
    # (FJSP only: FJSPFileGenerator pads each loaded set to its largest instance, so the same file instance meets different amounts of
    # padding. JSSPGenerator pads with NON-ZERO processing times that the encoder reads: there the padding content is part of the
    # instance tensor, see DESIGN 9b/32.)
    for env, extra in (("fjsp", dict(jobs=3, mas=2, min_ops=1, max_ops=4, mask_no_ops=True)), ("fjsp", dict(jobs=4, mas=3, min_ops=1, max_ops=3, mask_no_ops=True)),
                       ("fjsp", dict(jobs=5, mas=2, min_ops=2, max_ops=6, mask_no_ops=False))):
        for r in range(3 if q else 10):
            out.append(dict(policy="l2d", env=env, n=6, m=5 if q else 8, s=rnd.randrange(10**6), wseed=r, extra=extra, trim_pad=True))
    # the same dataset evaluated with several loader batch sizes (partial last chunk, chunks of one)
    for env in ("tsp", "cvrp", "op", "pctsp"):
        for method in ("greedy", "augment_dihedral_8", "multistart_greedy"):  # (the symmetric augmentation draws random rotations per loader batch: chunk-dependent by design)
            for r in range(1 if q else 4):
                N = rnd.choice([7, 10])
                out.append(dict(kind="chunks", policy="am", env=env, n=rnd.choice([6, 8]), N=N, bss=[N, 4, 3, 1], method=method, starts=3, A=8, s=rnd.randrange(10**6), wseed=r, extra={}))
    return out


def run_case(ctx, case):
    from vlib import c14impl

    (c14impl.chunk_case if case.get("kind") == "chunks" else c14impl.case)(ctx, case)


MANIFEST = {
    "text": "For every instance of the pools, the solo greedy decode (batch size 1) is compared with the same instance's row "
            "in batches of 2..8 at varying positions, among copies and among strangers, for AttentionModelPolicy on 13 envs "
            "(batch/instance/layer norm), PointerNetwork, HAM, SymNCO, MDAM, MatNet (randomness pinned), PolyNet and L2D on "
            "FJSP/JSSP: identical actions, rewards within 1e-5, log-likelihoods within 1e-4. Exploration over instances x "
            "batch contexts x weight seeds. Also: AM on DPP/MDPP, MatNet's multi-stage FFSP policy (randomness pinned per stage), the heat-map policy machinery, the library's own attention function, models decoding instances of another size, evaluate_policy with several loader batch sizes.",
    "note": "Float-flip guard: an action difference only counts when the solo decode's smallest top-2 logit margin is >= 1e-5. "
            "A solo decode that raises is reported (batch size one is part of the property).",
    "technique": "runtime monitoring: metamorphic comparison of recorded greedy decodes (solo reference vs batch contexts) with logit-margin taps",
    "design_ref": "DESIGN.md section 4 / C14",
}
