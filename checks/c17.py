"""C17 — datasets, collation and baseline wrapping preserve instance identity and order."""
PROPERTY = "C17"
LEVEL = "exploration"
RULE = (
    "roundtrip cases: instances from a real generator plus fingerprint keys of assorted dtypes/shapes (int64 id, bool, "
    "float64, int32 matrix) are wrapped into each bundled dataset class (TensorDictDataset, FastTdDataset, "
    "TensorDictDatasetFastGeneration, each with add_key('extra', f(id)), ExtraKeyDataset explicitly) and read back twice "
    "through DataLoader(collate_fn=ds.collate_fn) and through RL4COLitModule._dataloader_single for sizes 1..37 and batch "
    "sizes dividing or not, shuffle on/off: batch sizes, order (or permutation), every key's dtype/shape/content per "
    "instance id and the pairing extra<->instance are checked; the source TensorDict must be unmodified. baseline cases: "
    "RolloutBaseline(.setup).wrap_dataset (also through WarmupBaseline) with rollout batch size != loader batch size: every "
    "row's 'extra' must equal the baseline policy's greedy reward recomputed by the monitor on that very instance. "
    "history cases: wrap -> read -> real optimizer steps on the live policy -> read again -> baseline rebuilt from the trained "
    "policy -> the SAME dataset wrapped again -> read: at every phase extra must equal the greedy reward of the monitor's own "
    "frozen copy of the policy the baseline was last built from, and the baseline's policy must still agree with that copy. "
    "fit cases: a real RL4COTrainer.fit (REINFORCE + rollout baseline, 3-4 epochs, shuffled, partial last batch, optionally "
    "inside WarmupBaseline) with the same comparison on every training batch that carries 'extra'. "
    "One evaluation per loader pass / per baseline row; non-trivial = distinct case"
)
ASSUMPTIONS = ["baseline policy = small untrained AttentionModelPolicy; greedy rewards are batch-independent (C14)"]
REQUIRED_COUNTERS = ["c17_filename_override_reads", "c17_module_setups", "c17_module_file_reads", "c17_loader_passes", "c17_partial_last_batch", "c17_shuffled_reads", "c17_extra_checks", "c17_wrap_calls", "c17_baseline_rows", "c17_history_rows", "c17_rewraps", "c17_optimizer_steps", "c17_fit_batches_with_extra", "c17_train_mode_flips"]
MIN_NONTRIVIAL = {"quick": 700, "thorough": 2000}
WORKERS = {"quick": 14, "thorough": 16}
BUDGET_S = {"quick": 400, "thorough": 3000}
THOROUGH_ROUNDS = 8


def cases(tier, seed):
    import random

    rnd = random.Random(seed * 83 + 17)
    out = []
    q = tier == "quick"
    kinds = ["td", "fast", "fastgen", "td+extra", "fast+extra", "fastgen+extra", "extrakey_explicit"]
    for kind in kinds:
        for N in ((1, 2, 7, 16, 37) if q else (1, 2, 3, 5, 7, 8, 16, 31, 37, 64)):
            for bs in sorted(set([1, 2, 3, 4, 8, N, N + 3])):
                for shuffle in (False, True):
                    out.append(dict(kind="roundtrip", ds=kind, N=N, bs=bs, shuffle=shuffle, s=rnd.randrange(10**6), env=rnd.choice(["cvrp", "tsp", "op", "pdp"]),
                                    via_module=(rnd.random() < 0.25), extra_dtype=(rnd.choice(["float32", "int64", "float64", "bool"]) if "extra" in kind else "float32"),
                                    key=(rnd.choice(["extra", "extra", "bl_val", "due"]) if "+extra" in kind else "extra")))
    for env in ("tsp", "cvrp", "op"):
        for N in ((5, 12, 21) if q else (5, 12, 21, 40)):
            for bs_bl in (4, 7, 64):
                for bs in (3, 5):
                    for shuffle in (False, True):
                        for dscls in (None, "fast", "fastgen"):
                            out.append(dict(kind="baseline", env=env, N=N, bs_bl=bs_bl, bs=bs, shuffle=shuffle, s=rnd.randrange(10**6), dscls=dscls, warmup=(rnd.random() < 0.3)))
    # histories: wrap -> read -> optimizer steps on the live policy -> read -> baseline replaced -> re-wrap the same set -> read
    for env in ("tsp", "cvrp", "op"):
        for N in ((6, 13) if q else (6, 13, 24)):
            for dscls in (None, "fast", "fastgen"):
                for shuffle in (False, True):
                    out.append(dict(kind="history", env=env, N=N, bs_bl=rnd.choice([4, 7, 64]), bs=rnd.choice([3, 5]), shuffle=shuffle, s=rnd.randrange(10**6), dscls=dscls,
                                    warmup=(rnd.random() < 0.3), opt_steps=rnd.choice([1, 2, 4]), val_sampling=(rnd.random() < 0.4), train_flip=(rnd.random() < 0.7)))
    # real training runs (RL4COTrainer.fit, REINFORCE + rollout baseline, optionally in warm-up), monitored per training batch
    for env in ("tsp", "cvrp"):
        for r in range(3 if q else 6):
            out.append(dict(kind="fit", env=env, N=rnd.choice([13, 16, 21]), bs=rnd.choice([4, 5]), shuffle=rnd.random() < 0.7, s=rnd.randrange(10**6), epochs=rnd.choice([3, 4]),
                            warmup=rnd.choice([0, 0, 2])))
    # file-backed validation / test sets through the module's own setup() / val_dataloader() path, set up more than once
    for prob in ("tsp", "vrp"):
        for sizes in ([20], [20, 50], [50, 20, 20]):
            for r in range(2 if q else 5):
                out.append(dict(kind="module_files", problem=prob, sizes=sizes, N=rnd.choice([5, 7]), bs=rnd.choice([2, 3, 16]), named=bool(r % 2), s=rnd.randrange(10**6), shuffle_train=bool((r + len(sizes)) % 2),
                                stages=rnd.choice([["fit", "test"], ["fit", "fit", "test"], ["fit", "validate"]])))
    return out


def run_case(ctx, case):
    from vlib import c17impl

    dict(roundtrip=c17impl.roundtrip_case, baseline=c17impl.baseline_case, history=c17impl.history_case, fit=c17impl.fit_case, module_files=c17impl.module_files_case)[case["kind"]](ctx, case)


MANIFEST = {
    "text": "Every observed read-back of fingerprinted instances through the real dataset classes and DataLoader / "
            "_dataloader_single (7 dataset constructions x sizes 1..37(64) x batch sizes dividing or not x shuffle) returned "
            "exactly the originals (order or permutation, dtype, shape, content per id) with the extra value attached to its "
            "own instance, and every baseline value attached by RolloutBaseline.wrap_dataset (rollout batch 4/7/64, loader "
            "batch 3/5, shuffled or not, incl. WarmupBaseline) equalled the monitor's recomputation of the baseline "
            "policy's greedy reward on that instance, also after the live policy took optimizer steps, after the baseline was "
            "rebuilt and the same set wrapped again, and on every training batch of real multi-epoch fits. Exploration over sizes x batch sizes x classes x histories. Also: file-backed val/test sets through setup()/val_dataloader() over several setup passes, named multi-file loaders, shuffled training loader next to ordered val/test loaders, extra keys of int64 / float64 / bool.",
    "note": "Fingerprints: int64 uid per instance + sha1 of the source tensors before/after (mutation sanitizer).",
    "technique": "runtime monitoring: fingerprinted-instance tracing through the real dataset/loader/baseline-wrapping path with recomputation of the attached baseline values",
    "design_ref": "DESIGN.md section 4 / C17",
}
MANIFEST["text"] += " Rounds 7-8: extra keys under other names than 'extra', several named validation sets whose names are not in alphabetical order."
