"""C12 — replicated rollouts (multi-start, sampling, augmentation) keep their instance."""
PROPERTY = "C12"
LEVEL = "exploration"
RULE = (
    "three monitors on real calls: (ops) tagged tensors and nested TensorDicts through batchify/unbatchify/"
    "unbatchify_and_gather for B in 1..7 and nestings (k), (a,s), (r,a,s) with unequal factors - row r must carry "
    "instance r mod B, the round trip must be the identity, inputs must not be modified; (starts) env.select_start_nodes "
    "for 14 envs and k around the default number of starts, on generator instances and on instances where some first "
    "moves are infeasible - every forced start must be in that instance's reset mask and starts must be pairwise "
    "distinct whenever the instance has >= k feasible starts; (policy) AttentionModelPolicy forward with "
    "multistart_greedy / multistart_sampling / sampling(num_samples) and select_best on/off - every returned row r is "
    "checked against instance r mod B with the independent objective, and select_best's output is compared with the "
    "candidates tapped inside the same call (max reward, exactly that rollout's actions and log-likelihood); (strategy) the "
    "DecodingStrategy API itself driven with random logits on envs whose reward is read from the final state (FLP, MCP, mTSP "
    "min-max, JSSP, FJSP, SMTWTP): returned rewards must equal the reward of replaying the returned actions on fresh copies "
    "of the instance, and the max over the instance's own rollouts under select_best. "
    "One evaluation per checked row; non-trivial = distinct (configuration, instance, k)"
)
ASSUMPTIONS = [
    "policies are small untrained AttentionModelPolicy networks in eval mode",
    "best-of-k ties (equal reward within 1e-4) accept any of the tied rollouts",
    "POMO/SymNCO regrouping of per-rollout values by factor is C16's concern",
]
REQUIRED_COUNTERS = ["c12_evaluator_best_cases", "c12_other_size_start_cases", "c12_batchify_calls", "c12_unbatchify_calls", "c12_gather_calls", "c12_cache_batchify_calls", "c12_start_rows", "c12_rollout_rows", "c12_select_best_taps", "c12_best_rows", "c12_start_taps", "c12_strategy_calls", "c12_state_reward_rows"]
MIN_NONTRIVIAL = {"quick": 3000, "thorough": 30000}
WORKERS = {"quick": 14, "thorough": 16}
BUDGET_S = {"quick": 500, "thorough": 3000}
THOROUGH_ROUNDS = 8

POLICY_ENVS = ["tsp", "cvrp", "cvrptw", "sdvrp", "op", "pctsp", "spctsp", "pdp", "svrp", "mtvrp"]  # AM x mTSP raises with any replication (context embedding), see DESIGN


def cases(tier, seed):
    import itertools
    import random

    rnd = random.Random(seed * 67 + 12)
    out = []
    q = tier == "quick"
    shapes = [(k,) for k in (0, 1, 2, 3, 5, 8)] + [(2, 3), (3, 2), (4, 1), (1, 4), (2, 2), (5, 3)] + [(2, 3, 4), (4, 3, 2), (2, 1, 3), (3, 3, 2)]
    for B in range(1, 8):
        for sh in shapes:
            for r in range(1 if q else 5):
                out.append(dict(kind="ops", B=B, shape=list(sh), s=rnd.randrange(10**6)))
    from vlib.c12impl import START_ENVS

    for n in ((5, 8) if q else (4, 5, 8, 10, 20)):
        for name in START_ENVS:
            cfgs = [dict(env=name, n=n + (n % 2) if name == "pdp" else n)]
            if name == "mtvrp":
                cfgs = [dict(env="mtvrp", n=n, preset=p) for p in ("all", "vrptw", "vrpb", "ovrpbltw", "vrpl")]
            if name == "mtsp":
                cfgs = [dict(env="mtsp", n=n, cost_type="minmax", agents=(2, 3))]
            if name == "pdp":
                cfgs = [dict(env="pdp", n=n + (n % 2), start_depot=False), dict(env="pdp", n=n + (n % 2), start_depot=True)]
            for cfg in cfgs:
                for B in ((1, 4) if q else (1, 2, 4, 7)):
                    for hostile in ((False, True) if name == "op" else (False,)):
                        for r in range(4 if q else 12):
                            out.append(dict(kind="starts", cfg=cfg, B=B, s=rnd.randrange(10**6), hostile=hostile, k=rnd.randrange(1, n + 3)))
                        if name != "mtsp":  # instance size other than the env's generator size (mTSP's agent range is tied to the size)
                            for n2 in (n + 4, 2 * n, max(3, n - 2)):
                                n2 = n2 + (n2 % 2) if name == "pdp" else n2
                                out.append(dict(kind="starts", cfg=cfg, B=B, s=rnd.randrange(10**6), hostile=hostile, k=rnd.randrange(1, n2 + 3), inst_n=n2))
        for cfg in (dict(env="flp", n=n + 2, k=2), dict(env="mcp", n=n + 1, items=2 * n, k=2), dict(env="smtwtp", n=n)):
            for B in (1, 3):
                out.append(dict(kind="starts", cfg=cfg, B=B, s=rnd.randrange(10**6), k=rnd.randrange(1, n + 3)))
    for n in ((6, 9) if q else (5, 6, 10, 20)):
        for name in POLICY_ENVS:
            cfg = dict(env=name, n=n)
            if name == "mtvrp":
                cfg["preset"] = "all"
            if name == "mtsp":
                cfg.update(cost_type="minmax", agents=(2, 3))
            if name == "pdp":
                cfg["start_depot"] = False
            for B in ((1, 2, 5) if q else (1, 2, 3, 5, 8)):
                for decode, ks in (("multistart_greedy", (2, 3, n)), ("multistart_sampling", (3,)), ("sampling", (2, 4))):
                    if decode.startswith("multistart") and name in ():
                        # SVRP: the start rule is a recorded finding (forced starts ignore skills) - its rollouts would
                        # only repeat that finding
                        continue
                    for k in ks:
                        if name == "pdp" and decode.startswith("multistart") and k > n // 2:
                            k = n // 2
                        for sb in (False, True):
                            out.append(dict(kind="policy", cfg=cfg, B=B, k=k, decode=decode, select_best=sb, s=rnd.randrange(10**6)))
    # the DecodingStrategy API on envs whose reward is read from the final state
    st_cfgs = [dict(env="flp", n=7, k=3), dict(env="mcp", n=6, items=10, k=3), dict(env="mtsp", n=6, cost_type="minmax", agents=(2, 3)),
               dict(env="jssp", jobs=3, mas=3, one2one=True, mask_no_ops=True, n=9), dict(env="fjsp", jobs=3, mas=2, min_ops=1, max_ops=3, mask_no_ops=True, n=9), dict(env="smtwtp", n=6)]
    for cfg in st_cfgs:
        for B in ((1, 3) if q else (1, 2, 3, 5)):
            for k in ((2, 4) if q else (2, 3, 4, 6)):
                for sb in (False, True):
                    decs = ["sampling"] + (["multistart_sampling"] if cfg["env"] in ("flp", "mcp", "mtsp") else [])
                    for dec in decs:
                        if dec.startswith("multistart") and cfg["env"] == "mtsp" and k > cfg["n"] - 1:
                            continue
                        for r in range(1 if q else 3):
                            out.append(dict(kind="strategy", cfg=cfg, B=B, k=k, decode=dec, select_best=sb, s=rnd.randrange(10**6)))
    # best-of-k through the evaluators (rl4co.tasks.eval): the reported best reward must come with exactly that rollout's actions
    for env in ("tsp", "cvrp", "pctsp"):
        for m in ("multistart_greedy", "multistart_greedy_augment", "multistart_greedy_augment_dihedral_8", "augment", "sampling"):
            for (N, bs) in (((5, 2),) if q else ((5, 2), (6, 6), (7, 3))):
                out.append(dict(kind="eval_best", env=env, n=rnd.choice([6, 8]), N=N, bs=bs, method=m, s=rnd.randrange(10**6), A=8 if "dihedral" in m else rnd.choice([2, 4]), k=rnd.choice([3, 5])))
    # POMO / SymNCO validation steps: the best multi-start / augmentation actions must be the instance's own best rollout
    for model, grid in (("pomo", ((3, 8), (4, 1), (3, 0), (5, 0))), ("symnco", ((4, 4), (3, 2), (4, 0)))):
        for (S, A) in grid:
            for env in ("tsp", "cvrp"):
                out.append(dict(kind="model_val", model=model, env=env, n=rnd.choice([6, 8]), B=rnd.choice([2, 5]), S=S, A=A, s=rnd.randrange(10**6), phase=rnd.choice(["val", "test"])))
    return out


def run_case(ctx, case):
    from vlib import c12impl

    if case["kind"] == "model_val":
        from vlib import c15impl

        ctx.count("c12_evaluator_best_cases")
        return c15impl.model_val_case(ctx, case)
    if case["kind"] == "eval_best":
        from vlib import c15impl

        ctx.count("c12_evaluator_best_cases")
        return c15impl.eval_case(ctx, case)

    {"ops": c12impl.ops_case, "starts": c12impl.starts_case, "policy": c12impl.policy_case, "strategy": c12impl.strategy_case}[case["kind"]](ctx, case)


MANIFEST = {
    "text": "Held on every observed call: batchify/unbatchify/unbatchify_and_gather on tagged tensors and nested TensorDicts "
            "(B=1..7, 16 nestings incl. unequal factors); select_start_nodes of 14 envs for k around the default (feasibility "
            "in the instance's own reset mask, distinctness when enough feasible starts exist, incl. OP instances with "
            "unreachable first moves); AttentionModelPolicy multistart/multisample forwards on 11 envs where every output row "
            "is re-attributed to its instance by the independent objective and select_best is compared with the "
            "candidates tapped inside the same call. Exploration over B x k x nestings x instances. Also: start audits on instances of another size than the env generator's, the random start rule counted over all valid actions, best-of-k through the evaluators of rl4co.tasks.eval.",
    "note": "select_best tap: the strategy instance is captured by wrapping the name get_decoding_strategy in "
            "rl4co.models.common.constructive.base; zero tap hits make the check inconclusive.",
    "technique": "runtime monitoring: tagged-data tracing through the real replication ops + taps on the decoding strategy, checked by an independent per-instance objective",
    "design_ref": "DESIGN.md section 4 / C12",
}
MANIFEST["text"] += ' Round 7: SMTWTP start audits.'
