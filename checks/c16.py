"""C16 — training losses are the stated policy-gradient surrogates, with their gradients."""
PROPERTY = "C16"
LEVEL = "exploration"
RULE = (
    "case = one real RL4COTrainer.fit (2-3 epochs x 3 batches, tiny networks) of REINFORCE with baseline no / mean / "
    "exponential / rollout (warm-up over 1, 2 or 3 epochs) / critic / warm-up around a critic (trained two epochs past the warm-up), A2C, POMO (3 or 5 starts), SymNCO ((starts, augment) "
    "in (0,4), (4,4), (3,2), (5,2)) or PPO (mini-batches, 2 inner epochs, with/without advantage normalisation), with hooks "
    "on calculate_loss / shared_step / manual_backward. At EVERY training step the monitor recomputes the reference "
    "surrogate from the tapped rollout tensors using its own model of the baseline (own EMA state across steps, own alpha "
    "schedule, critic output tapped at the critic call, ground-truth instance/augment/start labels from the row layout) "
    "and compares loss value (1e-4 rel), d loss / d log-likelihood of every rollout (the weight the surrogate gives it; "
    "1e-5 rel) and the gradient w.r.t. all policy (and critic) parameters (2e-2 of the gradient scale: the parameter gradient "
    "is a residual of large cancelling per-rollout terms in float32), all obtained with torch.autograd.grad on both; after the REAL backward pass "
    "(on_after_backward / manual_backward) the parameters' .grad must equal the reference gradient of that very step (no stale or accumulated gradients); reward / baseline values must not require grad; shared-baseline advantages must average "
    "to zero per instance. One evaluation per training step; non-trivial = distinct (case, step)"
)
ASSUMPTIONS = [
    "advantage scaling (reward_scale) off; critic-based models use embed_dim 128 because create_critic_from_actor builds a 128-wide value head",
    "SymNCO is run with its default beta = 1 (which of the two symmetric terms beta multiplies is then immaterial)",
    "PPO reference: clipped surrogate + vf_lambda * Huber(delta=1) - entropy_lambda * mean entropy, as documented in the class",
]
REQUIRED_COUNTERS = ["c16_scaled_advantage_steps", "c16_fits", "c16_steps_checked", "c16_gradients_compared", "c16_rollout_weights_compared", "c16_dot_grad_checked", "c16_nonzero_gradients", "c16_rollout_steps", "c16_warmup_alpha0_steps", "c16_shared_groups_checked", "c16_ppo_minibatches", "c16_ppo_own_entropy", "c16_warmup_critic_steps", "c16_steps_after_warmup_end", "c16_rollout_values_checked"]
MIN_NONTRIVIAL = {"quick": 250, "thorough": 3000}
WORKERS = {"quick": 14, "thorough": 16}
BUDGET_S = {"quick": 600, "thorough": 3000}
THOROUGH_ROUNDS = 4


def cases(tier, seed):
    import random

    rnd = random.Random(seed * 101 + 16)
    out = []
    q = tier == "quick"
    reps = 2 if q else 6
    envs = ("tsp", "cvrp") if q else ("tsp", "cvrp", "op", "pctsp")
    for env in envs:
        for r in range(reps):
            for b in ("no", "mean", "exponential", "critic"):
                out.append(dict(model=f"reinforce:{b}", env=env, s=rnd.randrange(10**6), epochs=3, bs=rnd.choice([3, 5])))
            for warm in (1, 2, 3):
                out.append(dict(model="reinforce:rollout", env=env, s=rnd.randrange(10**6), epochs=4, warm=warm, bs=5))
            # documented options of the loss: advantage scaling (running statistics over the whole history), decay of the
            # exponential baselines (plain, and the one used during the rollout baseline's warm-up)
            for sc in ("norm", "scale", 3):
                out.append(dict(model=f"reinforce:{rnd.choice(['no', 'mean', 'exponential', 'critic'])}", env=env, s=rnd.randrange(10**6), epochs=3, bs=rnd.choice([3, 5]), reward_scale=sc))
            out.append(dict(model="pomo", env=env, s=rnd.randrange(10**6), epochs=2, S=3, bs=3, reward_scale=rnd.choice(["norm", "scale"])))
            out.append(dict(model="reinforce:exponential", env=env, s=rnd.randrange(10**6), epochs=3, bs=5, beta=rnd.choice([0.5, 0.95, 0.3])))
            out.append(dict(model="reinforce:rollout", env=env, s=rnd.randrange(10**6), epochs=4, warm=rnd.choice([2, 3]), bs=5, exp_beta=rnd.choice([0.5, 0.3, 0.95])))
            out.append(dict(model="a2c", env=env, s=rnd.randrange(10**6), epochs=2, bs=4))
            for warm in (1, 2, 3, 4):  # (with 2 warm-up epochs the only mixture weight is 1/2, which hides swapped weights)
                out.append(dict(model="reinforce_warmup_critic", env=env, s=rnd.randrange(10**6), epochs=warm + 2, warm=warm, bs=5, train=10))
            for S in (3, 5):
                out.append(dict(model="pomo", env=env, s=rnd.randrange(10**6), epochs=2, S=S, bs=rnd.choice([3, 4])))
            for S, A in ((0, 4), (4, 4), (3, 2), (5, 2)):
                out.append(dict(model="symnco", env=env, s=rnd.randrange(10**6), epochs=2, S=S, A=A, bs=3))
                if (S, A) in ((0, 4), (3, 2)):  # non-default weights of the solution-symmetricity and invariance terms
                    out.append(dict(model="symnco", env=env, s=rnd.randrange(10**6), epochs=2, S=S, A=A, bs=3, sym_beta=rnd.choice([0.5, 2.0]), sym_alpha=rnd.choice([0.5, 0.05])))
            for norm in (False, True):
                out.append(dict(model="ppo", env=env, s=rnd.randrange(10**6), epochs=2, mb=rnd.choice([2, 3]), norm_adv=norm, bs=6, train=12))
            # documented mini-batch specifications: a fraction of the rollout batch, a size above the batch (clamped), with an lr schedule
            out.append(dict(model="ppo", env=env, s=rnd.randrange(10**6), epochs=2, mb=0.5, norm_adv=False, bs=6, train=12))
            # non-default weights of the value and entropy terms and clip range (defaults: entropy_lambda = 0 switches the entropy term off)
            out.append(dict(model="ppo", env=env, s=rnd.randrange(10**6), epochs=2, mb=3, norm_adv=rnd.random() < 0.5, bs=6, train=12, entropy_lambda=rnd.choice([0.5, 0.05]), vf_lambda=rnd.choice([0.5, 1.0, 2.0]), clip_range=rnd.choice([0.2, 0.05])))
            out.append(dict(model="ppo", env=env, s=rnd.randrange(10**6), epochs=2, mb=64, norm_adv=True, bs=5, train=10, sched=True))
    return out


def run_case(ctx, case):
    from vlib import c16impl

    c16impl.case(ctx, case)


MANIFEST = {
    "text": "Held at every observed training step of real fits of REINFORCE (none, mean, exponential, warm-up rollout with 1-3 "
            "warm-up epochs, critic), A2C, POMO, SymNCO (4 start/augment configurations) and PPO: loss equal to the "
            "reference surrogate recomputed with the monitor's own baseline model and ground-truth labels, gradient w.r.t. "
            "every policy/critic parameter equal to the reference gradient, no gradient through rewards/baselines, "
            "per-instance centred shared advantages. Exploration over models x baselines x factors x successive steps. Also: advantage scaling (reward_scale) against the monitor's own running statistics, configured EMA decays (baseline beta, warm-up exp_beta), SymNCO's invariance term recomputed with ground-truth grouping.",
    "note": "Hooks are attached from the harness (no repository hooks); autograd.grad with retain_graph leaves the real backward pass untouched.",
    "technique": "runtime monitoring: hooks at calculate_loss / shared_step / manual_backward with a shadow baseline model and autograd gradient comparison",
    "design_ref": "DESIGN.md section 4 / C16",
}
MANIFEST["text"] += ' Rounds 7-8: PPO with configured entropy / value weights and clip range against a reference with its own entropy path, SymNCO with configured alpha / beta, condition-aware tolerance for float32 running statistics.'
