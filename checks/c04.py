"""C04 — an instance's outcome is independent of its batch-mates and of padding steps."""
PROPERTY = "C04"
LEVEL = "exploration"
RULE = (
    "case = pool of 8-12 instances of one env configuration; action scripts are recorded from a batched run under per-row "
    "hostile choosers (rows finish far apart). Reference = the SOLO execution (batch size 1, no padding) of each "
    "(instance, script). One evaluation = one comparison of a context execution with its solo reference on masks before "
    "every step (bit-exact), finishing step (exact) and reward (1e-5 rel). Contexts: the pool run, reversed pool with "
    "other padding actions, pairs with the slowest stranger in both orders, subsets of 3 and 7 at random positions, 4 "
    "copies of the instance following different scripts, the pool doubled on the SAME env object (a later reset with a larger batch), "
    "and a fresh env object whose first reset is a solo run and whose second is the pool. Non-trivial = distinct "
    "(context, instance, script, batch size, position)"
)
ASSUMPTIONS = [
    "padding actions are drawn from the finished row's own mask (first/last/uniform); a finished lone row that is offered no action is not padded",
    "rewards are compared within 1e-5 relative (different padded lengths change float32 summation order); masks and finishing steps bit-exact",
    "masks offered AFTER the finishing step are not compared (the statement is about the action sequence up to finishing)",
    "DPP/MDPP on synthetic PDN data",
]
REQUIRED_COUNTERS = ["episodes", "c04_solo_runs", "c04_context_comparisons", "c04_rows_padded>=2", "c04_ctx_pool", "c04_ctx_pair", "c04_ctx_subset", "c04_ctx_copies", "c04_ctx_doubled", "c04_ctx_solo_then_batch"]
MIN_NONTRIVIAL = {"quick": 5000, "thorough": 60000}
WORKERS = {"quick": 14, "thorough": 16}
BUDGET_S = {"quick": 500, "thorough": 3000}


def cases(tier, seed):
    from vlib import envzoo
    import random

    rnd = random.Random(seed * 43 + 4)
    out = []
    sizes = (5, 8) if tier == "quick" else (3, 4, 5, 6, 8, 10, 13, 20)
    reps = 2 if tier == "quick" else 12
    for cfg in envzoo.routing_configs(sizes):
        for fam in ("gen", "boundary", "degenerate"):
            if fam != "gen" and cfg["env"] == "mtvrp" and cfg.get("preset") not in ("all", "vrpb", "ovrpbltw"):
                continue
            if fam != "gen" and cfg["env"] in ("tsp", "atsp", "pdp", "mdcpdp") and fam == "boundary":
                continue  # no boundary family defined: identical to gen
            for r in range(reps if fam == "gen" else max(1, reps // 2)):
                out.append(dict(cfg=cfg, family=fam, B=8 if tier == "quick" else 12, s=rnd.randrange(10**6)))
    # batch-mates of another magnitude (coordinates x 1000 for every other row)
    for cfg in envzoo.routing_configs((6, 10)):
        if cfg["env"] in ("op", "tsp", "cvrp", "sdvrp", "pdp") and not (cfg.get("vcap") or cfg.get("dense")):
            for r in range(reps):
                out.append(dict(cfg=cfg, family="mixed_scale", B=8, s=rnd.randrange(10**6)))
    # a few instances at production sizes
    if tier == "quick":
        for cfg in [c for c in envzoo.routing_configs((50,)) if (c["env"] != "mtvrp" or c.get("preset") in ("all",)) and not (c.get("vcap") or c.get("prize_required") or c.get("dense") or c.get("speed"))] + [c for c in envzoo.routing_configs((100,)) if c["env"] in ("tsp", "cvrp")]:
            out.append(dict(cfg=cfg, family="gen", B=4, s=rnd.randrange(10**6)))
    for cfg in envzoo.sched_configs(tier) + envzoo.select_configs(tier):
        for r in range(reps * 2):
            out.append(dict(cfg=cfg, family="gen", B=8, s=rnd.randrange(10**6), targets=2))
        if cfg["env"] in ("flp", "mcp") and cfg["k"] > 1:
            for r in range(reps):
                out.append(dict(cfg=cfg, family="mixed_quota", B=8, s=rnd.randrange(10**6), targets=2))
    # improvement envs (move masks and moves per row, alone vs inside a batch)
    for n in ((6, 10, 20) if tier == "quick" else (6, 8, 10, 20, 50)):
        for r in range(reps):
            out.append(dict(kind="improve", cfg=dict(env="tsp_kopt", n=n, k=2), B=rnd.choice([2, 5, 8]), s=rnd.randrange(10**6), warm=r % 3))
            out.append(dict(kind="improve", cfg=dict(env="pdp_ruin_repair", n=n + (n % 2)), B=rnd.choice([2, 5, 8]), s=rnd.randrange(10**6), warm=r % 3))
    return out


def run_case(ctx, case):
    from vlib import meta

    if case.get("kind") == "improve":
        from vlib import improve

        return improve.batch_independence_case(ctx, case)
    meta.context_case(ctx, case)


MANIFEST = {
    "text": "For every recorded (instance, mask-confined action script) the execution at batch size 1 without padding is the "
            "reference; the same pair executed at each position of batches of 2/3/7/8-12 rows, next to strangers and next to "
            "copies of itself, with natural and scripted post-finish padding (1..tens of steps, first/last/uniform padding "
            "actions) must show bit-identical masks at every step, the same finishing step and the same reward, on all 13 "
            "routing envs (19 MTVRP presets, 6 MDCPDP modes), FJSP/JSSP/FFSP/SMTWTP, FLP/MCP (incl. mixed quotas), DPP/MDPP. "
            "Exploration over instances x scripts x contexts.",
    "note": "Metamorphic oracle: no problem definition needed; C03 ties the agreed reward to the independent objective. A solo "
            "run that raises is reported as a violation of 'including size 1'.",
    "technique": "runtime monitoring: metamorphic trace comparison (solo reference trace vs the same history replayed in other batch contexts)",
    "design_ref": "DESIGN.md section 4 / C04",
}
MANIFEST["text"] += ' Round 7: batch-mates of another magnitude (every other row x1000; OP rows whose budget is within 5e-4 of a closed tour).'
