"""C13 — beam search returns feasible, correctly scored and distinct beams."""
PROPERTY = "C13"
LEVEL = "exploration"
RULE = (
    "case = one real beam-search forward of AttentionModelPolicy (env x size x batch x beam width x select_best) with taps on "
    "BeamSearch._make_beam_step and _select_best_beam. Monitors: (a) at EVERY step and instance the kept (parent, node) "
    "expansions are the beam-width highest of {parent score + step log-prob} recomputed from the tapped tensors, no "
    "expansion kept twice, stored cumulative scores consistent; (b) every returned beam is feasible by the C01 oracle and "
    "its reward is the independent objective of its sequence on ITS instance; (c) beams of one instance are pairwise "
    "distinct when the forced first moves are; (d) all beams are replayed through env + decoder in evaluate mode on the "
    "replicated instances: per-step log-probs must coincide (back-tracking consistency); (e) with select_best the returned "
    "reward/actions are those of the best beam among the instance's own beams tapped inside the call. One evaluation per "
    "(step, instance) audit and per beam; non-trivial = distinct (instance, beam sequence, width)"
)
ASSUMPTIONS = [
    "small untrained AttentionModelPolicy in eval mode; widths 2..number of nodes (PDP: up to the number of pickups)",
    "ties between expansion scores within 1e-5 accept any of the tied expansions",
    "replayed per-step log-probs are compared within 1e-4 + 8 ulp of the largest raw logit of the call (unscaled CVRPTW logits reach 5e3, i.e. 4e-3 of slack; everywhere else the slack stays ~1e-4); a parent mix-up changes them by O(0.1)",
    "OP is run on instances where every customer is a feasible first move (the start rule is a recorded C12 finding)",
]
REQUIRED_COUNTERS = ["c13_warmup_calls", "c13_temperature_cases", "c13_beam_calls", "c13_topk_audits", "c13_beams_checked", "c13_replays", "c13_best_taps", "c13_best_rows", "c13_forced_starts_checked", "c13_sched_beam_calls"]
MIN_NONTRIVIAL = {"quick": 2500, "thorough": 30000}
WORKERS = {"quick": 14, "thorough": 16}
BUDGET_S = {"quick": 500, "thorough": 3000}
THOROUGH_ROUNDS = 4
ENVS = ["tsp", "cvrp", "cvrptw", "sdvrp", "op", "pctsp", "spctsp", "pdp", "mtvrp"]


def cases(tier, seed):
    import random

    rnd = random.Random(seed * 79 + 13)
    out = []
    q = tier == "quick"
    for name in ENVS:
        for n in ((6, 9) if q else (5, 6, 8, 10, 20)):
            maxw = n // 2 if name == "pdp" else n
            for W in sorted(set([2, 3, maxw, max(2, maxw - 1)])):
                if W > maxw or W < 2:
                    continue
                for B in ((1, 3) if q else (1, 2, 5)):
                    for sb in (False, True):
                        for r in range(2 if q else 5):
                            c = dict(env=name, n=n, B=B, W=W, select_best=sb, s=rnd.randrange(10**6), wseed=r)
                            u = rnd.random()
                            if u < 0.3:
                                c.update(temp=rnd.choice([0.5, 2.0, 0.7]), temp_via=rnd.choice(["call", "ctor"]))
                            if rnd.random() < 0.35:
                                # earlier calls on the same policy object: same number of beam rows split differently, or identical
                                alt = [(b2, (B * W) // b2) for b2 in range(1, B * W + 1) if (B * W) % b2 == 0 and 2 <= (B * W) // b2 <= maxw]
                                c["warm"] = [list(rnd.choice(alt))] + ([[B, W]] if rnd.random() < 0.5 else [])
                            out.append(c)
    # evaluation-scale batches: beam rows beyond 2**15 (index arithmetic over batch x beam)
    for name, n, B, W in (("tsp", 6, 6600, 6), ("cvrp", 5, 8300, 5)) if q else (("tsp", 6, 6600, 6), ("cvrp", 5, 8300, 5), ("tsp", 20, 1800, 20)):
        out.append(dict(env=name, n=n, B=B, W=W, select_best=bool(B % 200), s=rnd.randrange(10**6), wseed=0, big=True))
    # rows without any feasible first customer next to ordinary rows (OP out of reach, SVRP first technician under-skilled)
    for name in ("op", "svrp"):
        for n in ((6, 9) if q else (5, 6, 10)):
            for W in (2, 3, 5):
                for B in ((2, 3) if q else (1, 2, 3, 5)):
                    for sb in (False, True):
                        out.append(dict(env=name, n=n, B=B, W=W, select_best=sb, s=rnd.randrange(10**6), wseed=rnd.randrange(4), no_start=True))
    # the non-autoregressive (heat-map) policy machinery under beam search
    for name in ("tsp", "cvrp", "op"):
        for n in ((6, 9) if q else (5, 6, 8, 10)):
            for W in (2, 3, n):
                for B in ((1, 3) if q else (1, 2, 5)):
                    for sb in (False, True):
                        out.append(dict(env=name, n=n, B=B, W=W, select_best=sb, s=rnd.randrange(10**6), wseed=rnd.randrange(4), policy="nar"))
    # variable-length scheduling episodes with random forced first moves: L2D on FJSP / JSSP
    from vlib import envzoo

    scfgs = [c for c in envzoo.sched_configs(tier) if c["env"] in ("fjsp", "jssp") and c.get("n", 99) <= 16 and not c.get("stepwise") and not c.get("check_mask")]
    for cfg in scfgs[: (6 if q else 14)]:
        for W in (2, 3, 5):
            for B in ((2, 4) if q else (1, 2, 3, 6)):
                for sb in (False, True):
                    out.append(dict(kind="sched", cfg=cfg, B=B, W=W, select_best=sb, s=rnd.randrange(10**6), wseed=rnd.randrange(4)))
    return out


def run_case(ctx, case):
    from vlib import c13impl

    if case.get("kind") == "sched":
        return c13impl.sched_case(ctx, case)
    c13impl.case(ctx, case)


MANIFEST = {
    "text": "Held on every observed beam-search forward (8 envs with fixed- and variable-length episodes, widths 2..N, batch 1-5, "
            "select_best on/off): per-step top-k audit of the kept expansions from tapped tensors, feasibility and "
            "independent reward of every beam on its own instance, distinctness, exact agreement of the beams' per-step "
            "log-probs with a replay of the same sequences through env + decoder, and best-beam selection against the "
            "beams tapped inside the same call. Exploration over instances x widths x batch sizes. Also: decoding temperature != 1 (call / constructor), policy-object histories (earlier calls with the same number of beam rows), the non-autoregressive heat-map policy under beam search.",
    "note": "Taps wrap BeamSearch._make_beam_step / _select_best_beam on the strategy instance captured from ConstructivePolicy.forward.",
    "technique": "runtime monitoring: taps on beam-search internals, per-step top-k audit, replay of every returned beam through the real env and decoder",
    "design_ref": "DESIGN.md section 4 / C13",
}
MANIFEST["text"] += ' Rounds 7-8: L2D beam search on FJSP / JSSP (forced starts tapped at the env, beams replayed by the job-shop simulator), OP / SVRP batches with rows that have no feasible first customer.'
