"""C02 — no dead ends; finished stays finished and steppable; termination within the step bound."""
PROPERTY = "C02"
LEVEL = "exploration"
RULE = (
    "case = one batched episode (16 rows) of a real env under per-row hostile choosers chosen so rows finish far apart "
    "(depot/wait whenever allowed next to never); the monitor checks at EVERY step: every row has >=1 True mask bit while "
    "some row is unfinished, done never reverts, and per row the finishing step <= the problem's bound. One evaluation per "
    "row-episode; non-trivial = distinct batch episode in which some finished row was padded >= 3 steps (or selection / "
    "fixed-length envs: distinct batch)"
)
ASSUMPTIONS = [
    "step bounds: n (TSP/ATSP/PDP[+1]); 2n+1 (CVRP, CVRPTW, SVRP, MTVRP); n+2 (OP, PCTSP); 2(n+ceil(sum demand/Q))+1 (SDVRP); "
    "n+agents (mTSP); 2*ops+1 (FJSP/JSSP); jobs*stages+(sum max durations+1)*machines+1 (FFSP); quota (FLP/MCP/DPP/MDPP); jobs (SMTWTP)",
    "policy level: AttentionModelPolicy decode loops (greedy / sampling / multistart) must call env.step at most bound(slowest row) times and never decode an all-masked row",
]
REQUIRED_COUNTERS = ["episodes", "c02_step_events", "c02_batches_with_padding>=3", "c02_policy_forwards", "c02_policy_filtered_forwards", "c02_policy_default_cap_forwards"]
MIN_NONTRIVIAL = {"quick": 300, "thorough": 5000}
WORKERS = {"quick": 12, "thorough": 16}
BUDGET_S = {"quick": 400, "thorough": 3000}
THOROUGH_ROUNDS = 2


def cases(tier, seed):
    from vlib import envzoo
    import random

    rnd = random.Random(seed * 37 + 2)
    out = []
    sizes = (4, 5, 7, 10) if tier == "quick" else (3, 4, 5, 6, 8, 10, 13, 20, 50)
    reps = 2 if tier == "quick" else 20
    for cfg in envzoo.routing_configs(sizes):
        for fam in ("gen", "boundary", "degenerate"):
            if fam != "gen" and cfg["env"] == "mtvrp" and cfg.get("preset") not in ("all", "vrpb", "ovrpbltw"):
                continue
            for r in range(reps):
                out.append(dict(kind="routing", cfg=cfg, family=fam, B=16, s=rnd.randrange(10**6)))
    # a few instances at the library's production sizes (size-keyed tables, algorithm switches above a size, long episodes)
    if tier == "quick":
        for cfg in [c for c in envzoo.routing_configs((50,)) if c["env"] != "mtvrp" or c.get("preset") in ("all", "ovrpbltw")] + [c for c in envzoo.routing_configs((100,)) if c["env"] in ("tsp", "cvrp", "op", "pctsp")]:
            if cfg.get("vcap") or cfg.get("prize_required") or cfg.get("dense") or cfg.get("speed"):
                continue
            out.append(dict(kind="routing", cfg=cfg, family="gen", B=4, s=rnd.randrange(10**6)))
    # instances of another size than the env's generator makes (size-agnostic envs only)
    for cfg in envzoo.routing_configs((6,) if tier == "quick" else (6, 10)):
        if cfg["env"] in envzoo.SIZE_AGNOSTIC and not cfg.get("dense") and (cfg["env"] != "mtvrp" or cfg.get("preset") in ("all", "vrptw", "ovrpbltw", "vrpb")):
            for n2 in (cfg["n"] + 5, max(3, cfg["n"] - 2)):
                for r in range(max(1, reps // 2)):
                    out.append(dict(kind="routing", cfg=cfg, family="gen", B=16, s=rnd.randrange(10**6), inst_n=n2))
    for cfg in envzoo.sched_configs(tier) + envzoo.select_configs(tier):
        for r in range(reps * 3):
            out.append(dict(kind="other", cfg=cfg, family="gen", B=16, s=rnd.randrange(10**6)))
        if cfg["env"] in ("flp", "mcp") and cfg["k"] > 1:
            for r in range(reps):
                out.append(dict(kind="other", cfg=cfg, family="mixed_quota", B=16, s=rnd.randrange(10**6)))
        if cfg["env"] in ("fjsp", "jssp") and cfg.get("pmax", 9) <= 99 and cfg["jobs"] <= 6:
            for r in range(reps):
                out.append(dict(kind="other", cfg=cfg, family="sentinel", B=16, s=rnd.randrange(10**6)))
    # every fourth env-level case runs on an instance object that earlier episodes already used (1, 4 or 9 of them): nothing may
    # accumulate in it that leaves a later episode without an action
    for i, c_ in enumerate(out):
        if i % 4 == 3 and c_.get("family", "gen") in ("gen", "mixed_quota"):
            c_["reuse"] = True
            c_["reuse_n"] = [1, 4, 9][(i // 4) % 3]
    for env in ("tsp", "cvrp", "cvrptw", "sdvrp", "svrp", "op", "pctsp", "spctsp", "pdp", "mtsp", "mtvrp"):
        for n in ((6, 10) if tier == "quick" else (5, 6, 10, 20)):
            for dec in ("greedy", "sampling", "multistart_sampling"):
                if dec.startswith("multistart") and env in ("mtsp",):
                    continue
                for r in range(1 if tier == "quick" else 4):
                    out.append(dict(kind="policy", env=env, n=n, B=rnd.choice([1, 4, 7]), decode=dec, T=rnd.choice([1.0, 3.0]), s=rnd.randrange(10**6)))
                    if dec == "sampling":
                        # the documented filters: the k best RAW scores of a decoder may all belong to infeasible actions
                        out.append(dict(kind="policy", env=env, n=n, B=rnd.choice([1, 4, 7]), decode=dec, T=rnd.choice([1.0, 3.0]), s=rnd.randrange(10**6),
                                        filt=rnd.choice([dict(top_k=2), dict(top_k=3), dict(top_p=0.6), dict(top_k=3, top_p=0.8)])))
    # episodes longer than a thousand steps decoded on the policy's own default safety cap (large-instance evaluation)
    out.append(dict(kind="policy", env="tsp", n=1100, B=2, decode="greedy", s=rnd.randrange(10**6), default_cap=True))
    if tier != "quick":
        out.append(dict(kind="policy", env="cvrp", n=700, B=2, decode="sampling", T=1.0, s=rnd.randrange(10**6), default_cap=True))
        out.append(dict(kind="policy", env="tsp", n=2100, B=1, decode="sampling", T=1.0, s=rnd.randrange(10**6), default_cap=True))
    return out


def run_case(ctx, case):
    from vlib import sweep

    if case["kind"] == "policy":
        from vlib import c02policy

        return c02policy.case(ctx, case)
    if case["kind"] == "routing":
        sweep.routing_case(ctx, case, {"C02"})
    else:
        sweep.other_case(ctx, case, {"C02"})


MANIFEST = {
    "text": "Per-step structural monitor over every env.step of batched episodes of all 22 environments (routing, 19 MTVRP "
            "presets, FJSP/JSSP with and without waits, FFSP, SMTWTP, FLP/MCP incl. mixed quotas, DPP/MDPP on synthetic "
            "PDN data): no all-False mask row while the batch is unfinished, done monotone, finishing step within the "
            "bound. Rows are driven by opposing choosers so finished rows are padded for many steps; the decode "
            "loops of AttentionModelPolicy (greedy / sampling / multistart) on 11 envs are additionally bounded by the slowest "
            "row's step bound. Liveness is restated as bounded progress. Also: instances of another size than the env generator's, OP rows with no reachable customer, DenseRewardTSPEnv, FJSP/JSSP step-wise-reward / check_mask options.",
    "note": "Bounds are generous upper bounds stated in ASSUMPTIONS; a hung episode is observed through the driver's own step "
            "cap (6n+30), never through wall-clock.",
    "technique": "runtime monitoring: per-step invariant monitor (mask non-empty, done monotone, bounded progress) on recorded batched episodes",
    "design_ref": "DESIGN.md section 4 / C02",
}
MANIFEST["text"] += " Rounds 7-8: exact mTSP step bound with 1-4 agents per row, MCP instances with empty sets, episodes longer than a thousand steps decoded on the policy's default safety cap."
