"""C09 — improvement environments keep tours valid and best-so-far bookkeeping exact."""
PROPERTY = "C09"
LEVEL = "exploration"
RULE = (
    "one evaluation = one row transition (env.step or step_to_solution) of TSPkoptEnv (k=2,3,4) / PDPRuinRepairEnv observed by "
    "the shadow monitor: rec_current / rec_best single cycles (PDP: pickups before deliveries), cost_current / cost_bsf "
    "equal to float64 tour lengths, cost_bsf == the monitor's own running minimum and never increasing, reward == decrease "
    "of best-so-far, rewards summing to initial - best, visited_time == visiting order, get_current_solution / get_best_solution == the tours walked from node 0 (and _get_linked_list_solution their inverse). Drivers: (a) ALL moves admitted by "
    "the env's move mask from a state (2-opt: every ordered pair; ruin-repair: every (pair, first, second)) for states "
    "reached by random chains, plus one further random move from every successor; (b) the env's own random-move sampler "
    "over chains of 40-120 steps with step_to_solution jumps (back to the own best tour, and onto the best tour of an "
    "independent second search of the same instance, which is sometimes strictly better); (c) the bundled DACT / NeuOpt / N2S policies (untrained, "
    "sampling) stepping the env. Non-trivial = distinct (tour before, move, tour after) transitions"
)
ASSUMPTIONS = [
    "lengths compared within 1e-4 relative (float32 env vs float64 reference); reward within 1e-5",
    "policies are untrained small networks (embed 32, 1 layer): near-uniform move distributions over the moves their own masks admit",
]
REQUIRED_COUNTERS = ["c09_step_to_own_best_uncopied", "c09_solution_accessor_checks", "c09_torchrl_steps", "episodes", "c09_transitions", "c09_exhaustive_moves", "c09_policy_steps", "c09_step_to_solution", "c09_step_to_better_solution", "c09_improving_steps", "c09_non_improving_after_improvement"]
MIN_NONTRIVIAL = {"quick": 30000, "thorough": 300000}
WORKERS = {"quick": 14, "thorough": 16}
BUDGET_S = {"quick": 500, "thorough": 3000}
THOROUGH_ROUNDS = 4


def cases(tier, seed):
    import random

    rnd = random.Random(seed * 59 + 9)
    out = []
    q = tier == "quick"
    # (a) all admitted moves
    for n in ((5, 6, 7, 9) if q else (4, 5, 6, 7, 8, 9, 10, 12)):
        for warm in ((0, 3) if q else (0, 1, 3, 7)):
            for r in range(10 if q else 40):
                out.append(dict(kind="all", cfg=dict(env="tsp_kopt", n=n, k=2), s=rnd.randrange(10**6), warm=warm))
    for n in ((4, 6, 8) if q else (4, 6, 8, 10)):
        for warm in ((0, 3) if q else (0, 1, 3, 7)):
            for r in range(8 if q else 30):
                out.append(dict(kind="all", cfg=dict(env="pdp_ruin_repair", n=n), s=rnd.randrange(10**6), warm=warm))
    # (b) sampler chains
    for n in ((5, 7, 10, 20) if q else (4, 5, 6, 7, 8, 10, 13, 20, 50)):
        for k in (2, 3, 4, 5, 6):
            if k > n - 2:
                continue
            for r in range(6 if q else 30):
                out.append(dict(kind="sampler", cfg=dict(env="tsp_kopt", n=n, k=k), B=16, s=rnd.randrange(10**6), steps=40 if q else 120, to_best_every=rnd.choice([0, 7, 13]), jump_every=rnd.choice([0, 5, 9])))
        ne = n + (n % 2)
        for r in range(6 if q else 30):
            out.append(dict(kind="sampler", cfg=dict(env="pdp_ruin_repair", n=ne), B=16, s=rnd.randrange(10**6), steps=40 if q else 120, to_best_every=rnd.choice([0, 7, 13]), jump_every=rnd.choice([0, 5, 9])))
    # (c) policies
    for n in ((6, 10, 20) if q else (5, 6, 8, 10, 20, 50)):
        for r in range(5 if q else 25):
            out.append(dict(kind="policy", policy="dact", cfg=dict(env="tsp_kopt", n=n, k=2), B=8, s=rnd.randrange(10**6), steps=12 if q else 40))
            for k in (3, 4, 5, 6):
                if k > n - 2:
                    continue
                out.append(dict(kind="policy", policy="neuopt", cfg=dict(env="tsp_kopt", n=n, k=k), B=8, s=rnd.randrange(10**6), steps=12 if q else 40))
            out.append(dict(kind="policy", policy="n2s", cfg=dict(env="pdp_ruin_repair", n=n + (n % 2)), B=8, s=rnd.randrange(10**6), steps=12 if q else 40))
    if q:  # a few chains at production sizes
        for n in (50, 100):
            for k in (2, 3, 5):
                out.append(dict(kind="sampler", cfg=dict(env="tsp_kopt", n=n, k=k), B=8, s=rnd.randrange(10**6), steps=40, to_best_every=13, jump_every=9))
            out.append(dict(kind="sampler", cfg=dict(env="pdp_ruin_repair", n=n), B=8, s=rnd.randrange(10**6), steps=40, to_best_every=13, jump_every=9))
            out.append(dict(kind="policy", policy="dact", cfg=dict(env="tsp_kopt", n=n, k=2), B=4, s=rnd.randrange(10**6), steps=8))
            out.append(dict(kind="policy", policy="neuopt", cfg=dict(env="tsp_kopt", n=n, k=4), B=4, s=rnd.randrange(10**6), steps=8))
            out.append(dict(kind="policy", policy="n2s", cfg=dict(env="pdp_ruin_repair", n=n), B=4, s=rnd.randrange(10**6), steps=8))
    # initial tours: the generators' own "random" or "greedy" (nearest-neighbour) construction, one third greedy
    rnd2 = random.Random(seed * 59 + 10)
    for c in out:
        if rnd2.random() < 0.34:
            c["cfg"]["init"] = "greedy"
        if c["kind"] == "policy" and rnd2.random() < 0.4:
            c["phase"] = "train"  # training-phase decoding (log-likelihood of the sampled move is gathered)
        if c["kind"] == "sampler" and c.get("to_best_every") and rnd2.random() < 0.6:
            c["alias_best"] = True
        if c["kind"] == "sampler" and rnd2.random() < 0.3:
            c["cfg"]["torchrl"] = True  # documented TorchRL mode: the stepped-from state must survive the step
    rnd3 = random.Random(seed * 7 + 3)
    for c in out:
        if c["kind"] == "sampler" and rnd3.random() < 0.35:
            c["interleave"] = True  # a second search on other instances of the same shape alternates on the same env object
    return out


def run_case(ctx, case):
    from vlib import improve

    {"all": improve.exhaustive_case, "sampler": improve.sampler_case, "policy": improve.policy_case}[case["kind"]](ctx, case)


MANIFEST = {
    "text": "Every observed transition of the real TSPkoptEnv (k=2,3,4) and PDPRuinRepairEnv - all mask-admitted moves from "
            "sampled states, long chains of the env's own random-move sampler incl. step_to_solution, and the bundled DACT / "
            "NeuOpt / N2S policies stepping the env - was checked by a shadow monitor that keeps its own running minimum and "
            "recomputes tour validity, lengths, reward and visiting order independently. Exploration over instances x move "
            "histories; per sampled state the move set is enumerated completely. Also: get_current_solution / get_best_solution / _get_linked_list_solution against the walked tours, train-phase policy moves, the own best tour handed back uncopied (n-step PPO's curriculum).",
    "note": "Trusted base: vlib/improve.py (cycle walk + float64 length).",
    "technique": "runtime monitoring: shadow-state monitor (running minimum, reward ledger) + structural invariant check after every transition",
    "design_ref": "DESIGN.md section 4 / C09",
}
MANIFEST["text"] += ' Round 7: a second search on other instances of the same shape alternating on the same env object (both monitored).'
