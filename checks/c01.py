"""C01 — mask-confined episodes always yield feasible routing solutions."""
PROPERTY = "C01"
LEVEL = "exploration"
RULE = (
    "case = (env configuration, instance family, batch of 12-16 instances, seed); rows are driven by different hostile "
    "mask-confined choosers (uniform, first/last true, depot whenever allowed, avoid depot, nearest, farthest); every "
    "completed row is one evaluation = one (instance, executed action sequence) checked by the pure-Python feasibility "
    "oracle; non-trivial = distinct (instance, action sequence) pairs"
)
ASSUMPTIONS = [
    "float geometry (lengths, arrival times) within 1e-4 relative of a limit is ambiguous (counted, no verdict); rational "
    "demands k/Q are compared as integers",
    "SDVRP: documented greedy 'deliver as much as possible' semantics",
    "PCTSP/SPCTSP: requirement read from the instance's prize_required (default 1.0)",
]
REQUIRED_COUNTERS = ["episodes", "c01_episodes_checked", "torchrl_lookahead_probes", "reused_instance_objects", "reset_instance_key_checks"]
MIN_NONTRIVIAL = {"quick": 5000, "thorough": 50000}
WORKERS = {"quick": 12, "thorough": 16}
BUDGET_S = {"quick": 400, "thorough": 3000}
THOROUGH_ROUNDS = 3


TORCHRL_ENVS = {"tsp", "atsp", "cvrp", "cvrptw", "sdvrp", "svrp", "op", "pctsp", "spctsp", "pdp", "mtsp", "mtvrp", "mdcpdp"}


def cases(tier, seed):
    from vlib import envzoo
    import random

    rnd = random.Random(seed * 31 + 1)
    out = []
    sizes = (4, 5, 7, 10) if tier == "quick" else (3, 4, 5, 6, 8, 10, 13, 20, 50)
    reps = 4 if tier == "quick" else 30
    for cfg in envzoo.routing_configs(sizes):
        for fam in ("gen", "boundary", "degenerate"):
            if fam != "gen" and cfg["env"] == "mtvrp" and cfg.get("preset") not in ("all", "vrpb", "ovrpbltw"):
                continue
            for r in range(reps):
                out.append(dict(cfg=cfg, family=fam, B=16, s=rnd.randrange(10**6)))
    # near-coincident customers with a window that closes between them (distance helper under cancellation)
    for cfg in envzoo.routing_configs((6, 10) if tier == "quick" else (6, 10, 20)):
        if (cfg["env"] == "cvrptw" and not cfg.get("scale")) or (cfg["env"] == "mtvrp" and cfg.get("preset") in ("vrptw", "ovrptw", "vrpbltw", "all")):
            for r in range(reps):
                out.append(dict(cfg=cfg, family="twins", B=16, s=rnd.randrange(10**6)))
        if cfg["env"] == "mtvrp" and ("tw" in cfg.get("preset", "") or cfg.get("preset") == "all"):
            for r in range(max(1, reps // 2)):
                out.append(dict(cfg=cfg, family="chain", B=16, s=rnd.randrange(10**6)))
    # slow vehicles (speed < 1: the clock runs faster than the distance) on longer instances, where no-wait chains of several
    # customers end right at a deadline
    for cfg in envzoo.routing_configs((20,) if tier == "quick" else (20, 30)):
        if cfg.get("speed", 1.0) < 1.0 or (cfg["env"] == "cvrptw" and tier != "quick"):
            for r in range(reps):
                out.append(dict(cfg=cfg, family="gen", B=16, s=rnd.randrange(10**6)))
    # a few instances at the library's production sizes (size-keyed tables, algorithm switches above a size, long episodes)
    if tier == "quick":
        for cfg in [c for c in envzoo.routing_configs((50,)) if c["env"] != "mtvrp" or c.get("preset") in ("all", "ovrpbltw")] + [c for c in envzoo.routing_configs((100,)) if c["env"] in ("tsp", "cvrp", "op", "pctsp")]:
            if cfg.get("vcap") or cfg.get("prize_required") or cfg.get("dense") or cfg.get("speed"):
                continue
            out.append(dict(cfg=cfg, family="gen", B=4, s=rnd.randrange(10**6)))
    # instances of another size than the env's generator makes (size-agnostic envs only)
    for cfg in envzoo.routing_configs((6,) if tier == "quick" else (6, 10)):
        if cfg["env"] in envzoo.SIZE_AGNOSTIC and not cfg.get("dense") and (cfg["env"] != "mtvrp" or cfg.get("preset") in ("all", "vrptw", "ovrpbltw", "vrpb")):
            for n2 in (cfg["n"] + 5, max(3, cfg["n"] - 2)):
                for r in range(max(1, reps // 2)):
                    out.append(dict(cfg=cfg, family="gen", B=16, s=rnd.randrange(10**6), inst_n=n2))
    # every fourth case decodes the same instance object twice without cloning it (evaluate a batch, evaluate it again):
    # the monitors watch the second episode
    for i, c_ in enumerate(out):
        if i % 4 == 3:
            c_["reuse"] = True
        elif i % 4 == 1 and "cfg" in c_ and c_.get("kind", "routing") == "routing" and c_["cfg"]["env"] in TORCHRL_ENVS:
            c_["torchrl"] = True  # TorchRL-mode env driven with look-ahead probes
    return out


def run_case(ctx, case):
    from vlib import sweep

    sweep.routing_case(ctx, case, {"C01"})


MANIFEST = {
    "text": "Every completed mask-confined episode observed (13 routing envs, 19 MTVRP presets, generator / exact-boundary / "
            "degenerate instance families, 7 hostile choosers mixed per batch) was decoded and checked constraint by "
            "constraint by an oracle written from the problem definitions. Exploration: instances and action histories "
            "are sampled, with choosers that steer into corners random policies never reach; C05's exhaustive explorer "
            "adds all histories of small instances. Sessions 3+: DenseRewardTSPEnv, instances of another size than the env generator's (size-agnostic envs), OP rows with no reachable customer.",
    "note": "Trusted base: vlib/oracles/routing.py (self-tested on hand-computed miniatures at import). Tolerance band "
            "cases are reported as ambiguous, never as held or violated.",
    "technique": "runtime monitoring: recorded (instance, mask, action) histories checked offline by an independent feasibility oracle",
    "design_ref": "DESIGN.md section 4 / C01",
}
