"""C07 — scheduling environments always yield valid schedules with the reported makespan."""
PROPERTY = "C07"
LEVEL = "exploration"
RULE = (
    "case = one batched episode (16 rows) of FJSP / JSSP / FFSP / SMTWTP with per-row choosers (wait whenever allowed, "
    "never wait, first/last/uniform); for every finished row the final schedule tensors are validated rule by rule by a "
    "pure-Python oracle against the reset-time snapshot, the schedule is rebuilt from the action sequence alone by a "
    "reference event-driven simulator and must coincide, and the reward must be -makespan. Non-trivial = distinct "
    "(instance, action sequence)"
)
ASSUMPTIONS = [
    "instance snapshot taken at reset (the env zeroes proc_times of scheduled operations while stepping)",
    "the reference simulator encodes the documented decision rule: time advances to the next machine release when nothing "
    "can be scheduled now (or on an explicit wait action when waits are enabled)",
    "file instances: FJSP/JSSP text files written by the harness and read through the env's file generators",
]
REQUIRED_COUNTERS = ["c07_policy_rows", "c07_stepwise_reward_sums", "c07_ffsp_multistart_rows", "episodes", "c07_schedules_checked", "c07_simulations"]
MIN_NONTRIVIAL = {"quick": 3000, "thorough": 30000}
WORKERS = {"quick": 12, "thorough": 16}
BUDGET_S = {"quick": 400, "thorough": 3000}
THOROUGH_ROUNDS = 4


def cases(tier, seed):
    from vlib import envzoo
    import random

    rnd = random.Random(seed * 43 + 7)
    out = []
    reps = 10 if tier == "quick" else 80
    for cfg in envzoo.sched_configs(tier):
        for r in range(reps):
            out.append(dict(kind="other", cfg=cfg, family="gen", B=16, s=rnd.randrange(10**6)))
        if cfg["env"] == "smtwtp":
            for r in range(reps):
                out.append(dict(kind="other", cfg=cfg, family="boundary", B=16, s=rnd.randrange(10**6)))
        if cfg["env"] in ("fjsp", "jssp") and cfg.get("pmax", 9) <= 99 and cfg["jobs"] <= 6:
            for r in range(max(2, reps // 3)):
                out.append(dict(kind="other", cfg=cfg, family="sentinel", B=16, s=rnd.randrange(10**6)))
        if cfg["env"] == "ffsp" and cfg.get("tmax", 6) <= 6:
            for r in range(max(2, reps // 3)):
                out.append(dict(kind="ffsp_pomo", cfg=cfg, B=rnd.choice([1, 3, 4]), starts=rnd.choice([2, 6]), s=rnd.randrange(10**6)))
    # the bundled scheduling policy decodes the batch (its own loop and action bookkeeping): what it RETURNS is replayed
    for cfg in envzoo.sched_configs("quick"):
        if cfg["env"] in ("fjsp", "jssp") and cfg.get("pmax", 9) <= 99 and not cfg.get("stepwise"):
            for dec_ in ("greedy", "sampling"):
                for r in range(2 if tier == "quick" else 10):
                    out.append(dict(kind="policy", cfg=cfg, B=rnd.choice([1, 4, 7]), decode=dec_, s=rnd.randrange(10**6), wseed=r))
    # SMTWTP with the first move handed out by the environment's start rule (multi-start decoding)
    for cfg in envzoo.sched_configs(tier):
        if cfg["env"] == "smtwtp" and cfg["n"] <= 20:
            for k in ("default", 2, 3, cfg["n"]):
                for B_ in (1, 3):
                    out.append(dict(kind="smtwtp_multistart", cfg=cfg, B=B_, k=k, s=rnd.randrange(10**6)))
    # FJSP / JSSP with the first move handed out by the environment's start rule
    for cfg in envzoo.sched_configs("quick"):
        if cfg["env"] in ("fjsp", "jssp") and cfg.get("pmax", 9) <= 99 and not cfg.get("stepwise") and not cfg.get("check_mask") and cfg["jobs"] <= 6:
            for k in (2, 3, 6):
                for B_ in ((2, 4) if tier == "quick" else (2, 3, 4, 7)):
                    out.append(dict(kind="jobshop_multistart", cfg=cfg, B=B_, k=k, s=rnd.randrange(10**6)))
    # every fourth case decodes the same instance object twice without cloning it (evaluate a batch, evaluate it again):
    # the monitors watch the second episode
    for i, c_ in enumerate(out):
        if i % 4 == 3:
            c_["reuse"] = True
        elif i % 4 == 1:
            c_["torchrl"] = True  # TorchRL-mode env driven with look-ahead probes
    return out


def run_case(ctx, case):
    from vlib import sweep

    if case["kind"] == "policy":
        return sweep.sched_policy_case(ctx, case, {"C07"})
    if case["kind"] == "jobshop_multistart":
        return sweep.jobshop_multistart_case(ctx, case, {"C07"})
    if case["kind"] == "smtwtp_multistart":
        return sweep.smtwtp_multistart_case(ctx, case, {"C07"})
    if case["kind"] == "ffsp_pomo":
        return sweep.ffsp_pomo_case(ctx, case, {"C07"})
    sweep.other_case(ctx, case, {"C07"})


MANIFEST = {
    "text": "Final schedules of every finished row of batched episodes (jobs 2-10, machines 2-6, padded batches with "
            "different op counts, waits on/off, both flow-shop table layouts) validated against the reset-time instance: "
            "each real op once on one eligible machine for exactly its time, job order, machine exclusivity, padded ops "
            "untouched, reward = -makespan; plus agreement with a reference simulator of the same action sequence. "
            "Exploration over instances x action histories. Also: FJSP/JSSP with stepwise_reward (telescoping of the step rewards) and check_mask; L2D policy decodes whose RETURNED actions are replayed by the reference simulator.",
    "note": "Trusted base: vlib/oracles/scheduling.py (self-tested at import).",
    "technique": "runtime monitoring: schedule-validity oracle on final state + reference simulator replay of the recorded action history",
    "design_ref": "DESIGN.md section 4 / C07",
}
MANIFEST["text"] += " Rounds 7-8: SMTWTP, FJSP and JSSP episodes whose first move is handed out by the environment's own start rule (forced starts against their row's mask, rows replayed by the reference simulators)."
