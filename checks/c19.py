"""C19 — persistence round-trips preserve instances, environments and policies."""
PROPERTY = "C19"
LEVEL = "exploration"
RULE = (
    "five monitors on real save/restore paths, each ending in a BEHAVIOURAL comparison by replaying a recorded mask-confined "
    "action history on the restored object: (npz) generator batches of 20 envs through save_tensordict_to_npz / "
    "load_npz_to_tensordict / env.load_data: keys, dtypes, shapes, content, then masks+reward along a recorded history; "
    "(datafile) files written by rl4co.data.generate_data.generate_dataset for tsp/vrp/pdp/op/pctsp/atsp consumed by "
    "env.dataset(filename=) incl. the documented demand normalisation, then episodes on the loaded instances checked by "
    "the C01/C03 oracles; (schedfile) FJSP parser.write -> FJSPFileGenerator and JSSP standard text -> JSSPFileGenerator: "
    "instance content up to padding (matched as a set) and identical masks/makespan along recorded histories; (envcopy) "
    "copy.deepcopy / pickle of every env: same masks, rewards, and same generator output from the same seed; (checkpoint) "
    "REINFORCE with no/mean/exponential/rollout/warmup/critic baselines, AttentionModel, POMO, PPO fitted for 1 epoch by the "
    "real RL4COTrainer, saved, restored with load_from_checkpoint: identical greedy actions, rewards, log-likelihoods, "
    "weights and baseline state. Non-trivial = distinct case"
)
ASSUMPTIONS = [
    "text-file instance order follows os.listdir and is not part of the property: read instances are matched to written ones by content",
    "checkpoints are written to a scratch directory that is removed afterwards; training uses 8 instances, 1 epoch, CPU, fp32",
]
REQUIRED_COUNTERS = ["c19_baseline_copies", "c19_abs_path_sets", "c19_filename_override_loads", "c19_generated_file_comparisons", "c19_phase_decode_checks", "c19_npz_dtype_cases", "c19_default_path_files", "c19_mdpp_files", "c19_capacity_override_files", "c19_op_prize_rule_checks", "c19_npz_roundtrips", "c19_datafile_loads", "c19_datafile_rows", "c19_sched_file_sets", "c19_env_copies", "c19_behaviour_checks", "c19_checkpoints", "c19_policy_rows", "c19_baseline_checks", "c19_multifile_checks", "c19_merged_capacity_files", "c19_sched_rereads", "c19_dataset_from_file_loads"]
MIN_NONTRIVIAL = {"quick": 150, "thorough": 1000}
WORKERS = {"quick": 14, "thorough": 16}
BUDGET_S = {"quick": 500, "thorough": 3000}
THOROUGH_ROUNDS = 6


def cases(tier, seed):
    import random

    from vlib import envzoo

    rnd = random.Random(seed * 97 + 19)
    out = []
    q = tier == "quick"
    reps = 2 if q else 8
    zoo = [c for c in envzoo.routing_configs((6,)) if c["env"] != "mtvrp" or c["preset"] in ("all", "vrptw", "ovrpbltw")]
    others = envzoo.sched_configs("quick")[:6] + [c for c in envzoo.select_configs("quick") if c["env"] in ("flp", "mcp")][:4] + [dict(env="smtwtp", n=5)] + [c for c in envzoo.sched_configs("quick") if c["env"] == "ffsp"][:2]
    for cfg in zoo + others:
        for r in range(reps):
            out.append(dict(kind="npz", cfg=cfg, B=6, s=rnd.randrange(10**6), compress=bool(r % 2)))
            out.append(dict(kind="envcopy", cfg=cfg, B=6, s=rnd.randrange(10**6)))
        out.append(dict(kind="npz", cfg=cfg, B=5, s=rnd.randrange(10**6), compress=bool(rnd.random() < 0.5), dtypes=rnd.choice(["float64", "mixed"])))
    for prob in ("tsp", "vrp", "pdp", "op", "pctsp", "atsp"):
        for n in ((20,) if q else (20, 50)):
            for r in range(reps):
                out.append(dict(kind="datafile", problem=prob, n=n, N=rnd.choice([5, 8]), s=rnd.randrange(10**6)))
                if prob == "vrp":
                    out.append(dict(kind="datafile", problem=prob, n=n, N=rnd.choice([6, 8]), s=rnd.randrange(10**6), merged=rnd.choice([15.0, 25.0, 60.0])))
                    out.append(dict(kind="datafile", problem=prob, n=n, N=rnd.choice([5, 7]), s=rnd.randrange(10**6), capacity_override=rnd.choice([12.0, 45.0])))
                if prob == "op":
                    for dist in ("const", "unif", "dist"):
                        out.append(dict(kind="datafile", problem=prob, n=n, N=rnd.choice([5, 8]), s=rnd.randrange(10**6), dist=dist, default_path=rnd.choice([None, "val"])))
                out.append(dict(kind="datafile", problem=prob, n=n, N=rnd.choice([5, 8]), s=rnd.randrange(10**6), default_path=rnd.choice(["val", "test"])))
    for r in range(reps):
        out.append(dict(kind="datafile", problem="mdpp", n=10, N=rnd.choice([4, 6]), s=rnd.randrange(10**6)))
    for prob in ("tsp", "vrp", "pdp", "pctsp", "atsp"):
        for r in range(max(1, reps // 2)):
            out.append(dict(kind="gen_determinism", problem=prob, sizes=rnd.choice([[20, 50], [50, 20, 100], [20, 100]]), N=rnd.choice([3, 5]), s=rnd.randrange(10**4)))
    for cfg in [c for c in envzoo.sched_configs("quick") if c["env"] in ("fjsp", "jssp") and (c["env"] == "fjsp" or c.get("one2one") is False or c.get("one2one"))]:
        for r in range(reps * 2):
            out.append(dict(kind="schedfile", cfg=cfg, B=rnd.choice([1, 3, 5]), s=rnd.randrange(10**6)))
    for model in ("reinforce:no", "reinforce:mean", "reinforce:exponential", "reinforce:rollout", "reinforce:critic", "am", "pomo", "ppo"):
        for env in (("tsp", "cvrp") if q else ("tsp", "cvrp", "op")):
            for r in range(reps):
                out.append(dict(kind="checkpoint", model=model, env=env, s=rnd.randrange(10**6), epochs=1 + (r % 2)))
    for prob in ("tsp", "vrp"):
        for sizes in ([20, 50, 100], [50, 20], [100, 20, 50], [20, 100]):
            for phase in ("val", "test"):
                for named in (True, False):
                    out.append(dict(kind="multifile", problem=prob, sizes=sizes, phase=phase, named=named, N=4, s=rnd.randrange(10**6), abs_paths=(len(sizes) == 2 and named)))
    return out


def run_case(ctx, case):
    from vlib import c19impl as m

    {"multifile": m.multifile_case, "npz": m.npz_case, "datafile": m.datafile_case, "schedfile": m.schedfile_case, "envcopy": m.envcopy_case, "checkpoint": m.checkpoint_case, "gen_determinism": m.gen_determinism_case}[case["kind"]](ctx, case)


MANIFEST = {
    "text": "Held on every observed round trip: npz save/load and env.load_data (all envs), generate_dataset files read through "
            "env.dataset (6 problems, 8 env classes) with oracle-checked episodes on the loaded data, FJSP write/read and JSSP "
            "text files through the file generators, deepcopy/pickle of every env, and Lightning checkpoints of REINFORCE "
            "(5 baselines), AttentionModel (warm-up rollout baseline), POMO and PPO restored with load_from_checkpoint. "
            "Equivalence is judged on content and on behaviour (masks and rewards along replayed histories, greedy "
            "actions/rewards/log-likelihoods, weights). Exploration over instances x envs x model/baseline combinations. Also: generate_dataset default paths / OP prize rules / capacity override / MDPP files, files whose content must not depend on the generation history, double-precision and mixed-dtype npz round trips, phase-default decoding after checkpoint restore.",
    "note": "Scratch files live under a temp directory removed in a finally block.",
    "technique": "runtime monitoring: save/restore round trips with trace replay (recorded action histories replayed on the restored object and compared)",
    "design_ref": "DESIGN.md section 4 / C19",
}
MANIFEST["text"] += " Round 7: random-stream continuity of used envs across pickle / deepcopy (restored env serves the original's next batch; a deep copy leaves the original undisturbed)."
