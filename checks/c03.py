"""C03 — reported reward equals the independently recomputed objective of the executed solution."""
PROPERTY = "C03"
LEVEL = "exploration"
RULE = (
    "case = one batched episode (16 rows, mixed hostile choosers) of a real env in one reward mode; for every completed "
    "row the monitor compares env.get_reward(final state, padded actions) with the objective recomputed in float64 from "
    "the instance snapshot taken at reset and the executed actions only. One evaluation per row; non-trivial = distinct "
    "(instance, executed action sequence)"
)
ASSUMPTIONS = [
    "tolerance 1e-4*max(1,|objective|) (float32 accumulation in the library vs float64 reference)",
    "scheduling: the reward is compared with the makespan of the schedule validated by the C07 oracle",
    "DPP/MDPP rewards come from a physics simulator with no independent definition: not covered here (their "
    "batch-independence is C04)",
]
REQUIRED_COUNTERS = ["episodes", "c03_rewards_checked", "torchrl_lookahead_probes", "reused_instance_objects"]
MIN_NONTRIVIAL = {"quick": 5000, "thorough": 50000}
WORKERS = {"quick": 12, "thorough": 16}
BUDGET_S = {"quick": 400, "thorough": 3000}
THOROUGH_ROUNDS = 2


TORCHRL_ENVS = {"tsp", "atsp", "cvrp", "cvrptw", "sdvrp", "svrp", "op", "pctsp", "spctsp", "pdp", "mtsp", "mtvrp", "mdcpdp"}


def cases(tier, seed):
    from vlib import envzoo
    import random

    rnd = random.Random(seed * 41 + 3)
    out = []
    sizes = (4, 5, 7, 10) if tier == "quick" else (3, 4, 5, 6, 8, 10, 13, 20, 50)
    reps = 3 if tier == "quick" else 25
    for cfg in envzoo.routing_configs(sizes):
        for fam in ("gen", "boundary", "degenerate"):
            if fam != "gen" and cfg["env"] == "mtvrp" and cfg.get("preset") not in ("all", "vrpb", "ovrpbltw"):
                continue
            for r in range(reps):
                out.append(dict(kind="routing", cfg=cfg, family=fam, B=16, s=rnd.randrange(10**6)))
    for cfg in envzoo.sched_configs(tier) + envzoo.select_configs(tier):
        if cfg["env"] in ("dpp", "mdpp"):
            continue
        for r in range(reps * 2):
            out.append(dict(kind="other", cfg=cfg, family="gen", B=16, s=rnd.randrange(10**6)))
        if cfg["env"] in ("fjsp", "jssp") and cfg.get("pmax", 9) <= 99 and cfg["jobs"] <= 6:
            for r in range(reps):
                out.append(dict(kind="other", cfg=cfg, family="sentinel", B=16, s=rnd.randrange(10**6)))
    # a few instances at the library's production sizes (size-keyed tables, algorithm switches above a size, long episodes)
    if tier == "quick":
        for cfg in [c for c in envzoo.routing_configs((50,)) if c["env"] != "mtvrp" or c.get("preset") in ("all", "ovrpbltw")] + [c for c in envzoo.routing_configs((100,)) if c["env"] in ("tsp", "cvrp", "op", "pctsp")]:
            if cfg.get("vcap") or cfg.get("prize_required") or cfg.get("dense") or cfg.get("speed"):
                continue
            out.append(dict(kind="routing", cfg=cfg, family="gen", B=4, s=rnd.randrange(10**6)))
    # instances of another size than the env's generator makes (size-agnostic envs only)
    for cfg in envzoo.routing_configs((6,) if tier == "quick" else (6, 10)):
        if cfg["env"] in envzoo.SIZE_AGNOSTIC and not cfg.get("dense") and (cfg["env"] != "mtvrp" or cfg.get("preset") in ("all", "vrptw", "ovrpbltw", "vrpb")):
            for n2 in (cfg["n"] + 5, max(3, cfg["n"] - 2)):
                for r in range(max(1, reps // 2)):
                    out.append(dict(kind="routing", cfg=cfg, family="gen", B=16, s=rnd.randrange(10**6), inst_n=n2))
    # every fourth case decodes the same instance object twice without cloning it (evaluate a batch, evaluate it again):
    # the monitors watch the second episode
    for i, c_ in enumerate(out):
        if i % 4 == 3:
            c_["reuse"] = True
            if c_.get("cfg", {}).get("env") in ("flp", "mcp", "dpp", "mdpp", "fjsp", "jssp", "smtwtp"):
                c_["reuse_n"] = [1, 4, 9][(i // 4) % 3]
        elif i % 4 == 1 and "cfg" in c_ and (c_.get("kind", "routing") != "routing" or c_["cfg"]["env"] in TORCHRL_ENVS):
            c_["torchrl"] = True  # TorchRL-mode env driven with look-ahead probes
    return out


def run_case(ctx, case):
    from vlib import sweep

    if case["kind"] == "routing":
        sweep.routing_case(ctx, case, {"C03"})
    else:
        sweep.other_case(ctx, case, {"C03"})


MANIFEST = {
    "text": "Every reward returned by env.get_reward on completed mask-confined episodes (padded and unpadded rows alike) is "
            "compared with an objective recomputed from the reset-time instance snapshot and the executed actions, for every "
            "reward mode in the zoo (mTSP minmax/sum, MTVRP open/closed, SPCTSP stochastic prize, SVRP technician costs, "
            "scheduling makespans, SMTWTP tardiness, MCP coverage, FLP distances). Exploration over instances x histories. Also: rewards read from an invalid implied schedule are violations, get_reward is asked three times for the same final state (idempotence), instances of another size, DenseRewardTSPEnv.",
    "note": "Trusted base: the objective functions in vlib/oracles (hand-checked miniatures at import). MDCPDP is handled by "
            "its own oracle in the same sweep (see DESIGN section 9).",
    "technique": "runtime monitoring: reference-model oracle (float64 objective from recorded instance + actions) vs observed reward",
    "design_ref": "DESIGN.md section 4 / C03",
}
MANIFEST["text"] += ' Round 7: get_reward on the reset state + actions must equal the final-state reward wherever the reward is a function of the actions.'
