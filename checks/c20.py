"""C20 — running statistics (RewardScaler) and stateful baselines (exponential, warm-up).

Events: every call of the REAL RewardScaler.__call__, ExponentialBaseline.eval, WarmupBaseline.eval /
.epoch_callback along random histories. Oracle: float64 reference kept by the monitor over the whole
history (all values so far; own EMA recurrence; own alpha schedule).
"""
import math

PROPERTY = "C20"
LEVEL = "exploration"
RULE = (
    "case = (kind, params, seed) -> one history of 5..1000 calls with random batch sizes 1..64 (shapes [B], [B,1], "
    "[B,k]), magnitudes 1e-3..1e4, offsets, constant batches; the monitor checks the object's state and output after "
    "EVERY call (one evaluation per call). non-trivial = distinct history with >=3 calls of differing batch size"
)
ASSUMPTIONS = [
    "reference statistics are float64 over the float32 values actually passed in; comparison tolerance "
    "1e-4 relative (+1e-6*|mean| absolute for std, since the library accumulates in float32)",
    "warm-up schedule checked for epoch callbacks in order (0,1,2,...) incl. repeated callbacks and epochs beyond n_epochs",
]
REQUIRED_COUNTERS = ["warmup_fit_runs", "scaler_calls", "scaler_outputs_checked", "ema_calls", "warmup_calls", "warmup_epoch_callbacks", "ema_exact_zero_followups", "ema_kept_values_checked"]
MIN_NONTRIVIAL = {"quick": 100, "thorough": 1000}
WORKERS = {"quick": 8, "thorough": 16}
BUDGET_S = {"quick": 300, "thorough": 1500}
THOROUGH_ROUNDS = 4


def cases(tier, seed):
    import random

    rnd = random.Random(seed * 104729 + 20)
    out = []
    n = 60 if tier == "quick" else 600
    for i in range(n):
        out.append(dict(kind="scaler", scale=["norm", "scale", None, 10][i % 4] if i % 7 else "norm",
                        mag=rnd.choice([1e-6, 1e-5, 1e-3, 1e-1, 1.0, 30.0, 1e4]), off=rnd.choice([0.0, 0.0, 1.0, -10.0, 50.0]) if i % 3 else 0.0,
                        steps=rnd.choice([5, 20, 60]) if i % 10 else (300 if tier == "quick" else 1000),
                        const=rnd.random() < 0.15, s=rnd.randrange(10**6)))
    for (n_, E_) in ((1, 1), (2, 2), (3, 2), (2, 3), (4, 3)):
        for r in range(1 if tier == "quick" else 3):
            out.append(dict(kind="fit_alpha", n_epochs=n_, max_epochs=E_, s=rnd.randrange(10**6)))
    # double-precision inputs whose offset is large against their spread (offset / spread up to 2.5e4): exact enough in float64,
    # garbage if the statistics are accumulated in single precision on the way
    for i in range(max(8, n // 5)):
        out.append(dict(kind="scaler", scale=["norm", "scale"][i % 2], mag=rnd.choice([4.0, 0.05, 1.0]), off=rnd.choice([1e5, 1e3, -2e4]), f64=True,
                        steps=rnd.choice([5, 20, 60]), const=False, s=rnd.randrange(10**6)))
    for i in range(n):
        out.append(dict(kind="ema", beta=rnd.choice([0.0, 0.5, 0.8, 0.9, 0.99, 1.0]), via=rnd.choice(["cls", "registry", "mean"]),
                        mag=rnd.choice([1e-2, 1.0, 100.0]), steps=rnd.choice([3, 10, 50]), s=rnd.randrange(10**6)))
    for i in range(max(6, n // 4)):
        out.append(dict(kind="ema", beta=rnd.choice([0.5, 0.8, 0.9]) if i % 3 else 0.5, via=rnd.choice(["cls", "registry"]), zero=["mid", "first_zeros", "first_cancel"][i % 3],
                        mag=rnd.choice([1.0, 100.0]), steps=rnd.choice([4, 10]), s=rnd.randrange(10**6)))
    for i in range(n):
        out.append(dict(kind="warmup", n_epochs=rnd.choice([1, 2, 3, 5, 8]), beta=rnd.choice([0.5, 0.8, 0.95]),
                        epochs=rnd.choice([2, 4, 9, 12]), per_epoch=rnd.choice([1, 3, 6]), repeat_cb=rnd.random() < 0.3,
                        via=rnd.choice(["cls", "registry"]), s=rnd.randrange(10**6)))
    return out


def close(a, b, rel=1e-4, ab=1e-7):
    if a != a and b != b:
        return True
    if a != a or b != b:
        return False
    if math.isinf(a) or math.isinf(b):
        return a == b
    return abs(a - b) <= rel * max(abs(a), abs(b)) + ab


def run_case(ctx, case):
    import torch

    g = torch.Generator().manual_seed(case["s"])
    kind = case["kind"]

    def draw(mag, off=0.0, const=False):
        B = int(torch.randint(1, 65, (1,), generator=g))
        shp = [(B,), (B, 1), (B, int(torch.randint(1, 5, (1,), generator=g)))][int(torch.randint(0, 3, (1,), generator=g))]
        if const:
            x = torch.full(shp, float(torch.randn(1, generator=g)) * mag + off)
        else:
            x = torch.randn(*shp, generator=g) * mag + off
        return x

    if kind == "scaler":
        from rl4co.models.rl.common.utils import RewardScaler

        sc = RewardScaler(case["scale"])
        allv = []
        sizes = set()
        for t in range(case["steps"]):
            x = draw(case["mag"], case["off"], case["const"] and t % 3 != 2)
            if case.get("f64"):
                x = x.double()  # double-precision advantages (float64 training runs): the statistics then have float64 inputs
            x_in = x.clone()
            sizes.add(x.numel())
            out = sc(x)
            ctx.count("scaler_calls")
            ctx.evaluation()
            sig = dict(kind="scaler", scale=str(case["scale"]))
            if case["scale"] is None:
                if not torch.equal(out, x_in):
                    ctx.violation(dict(sig, q="identity"), "scale=None must return the input", dict(t=t))
                continue
            if isinstance(case["scale"], int):
                if not torch.allclose(out, x_in / case["scale"], rtol=1e-6, atol=0):
                    ctx.violation(dict(sig, q="const_div"), "integer scale must divide by it", dict(t=t))
                continue
            allv.extend(x_in.double().reshape(-1).tolist())
            n = len(allv)
            mean = sum(allv) / n
            var = sum((v - mean) ** 2 for v in allv) / (n - 1) if n > 1 else float("nan")
            std = math.sqrt(var) if var == var else float("nan")
            if sc.count != n:
                ctx.violation(dict(sig, q="count"), f"count {sc.count} != {n} values observed", dict(t=t))
            lm = float(sc.mean)
            # the std actually USED is observed through the output (the scaler exposes no std attribute):
            # 'scale': out = x/(std+eps)  'norm': out = (x-mean)/(std+eps)
            eps_ = float(torch.finfo(torch.float32).eps)
            xi, oo = x_in.double().reshape(-1), out.double().reshape(-1)
            lstd = None
            if n > 1:
                if torch.isnan(oo).any():
                    lstd = float("nan")
                else:
                    num = xi if case["scale"] == "scale" else xi - lm
                    j = int(num.abs().argmax())
                    if float(num[j].abs()) > 0 and float(oo[j].abs()) > 0 and math.isfinite(float(oo[j])):
                        lstd = float(num[j] / oo[j]) - eps_
            if lstd is None:
                ctx.count("scaler_std_unobservable")
            # float32 conditioning of the (exact in real arithmetic) batched Welford update: the error of the
            # variance is ~ eps32 * max|x|^2, hence of the std ~ eps32*max|x|^2/std. Beyond that -> violation.
            mmax = max(abs(v) for v in allv)
            eps32 = 2.0**-23 if not case.get("f64") else 2.0**-44  # float64 accumulation, float32 only in the final cast of the std
            # |std_lib - std| <= sqrt(std^2 + dv) - std with dv = 16*eps32*max|x|^2 (covers std == 0: sqrt(dv))
            tol_abs = (math.sqrt(std * std + 16 * eps32 * mmax * mmax) - std) if std == std else float("inf")
            if not close(lm, mean, 1e-4, 1e-5 * (std if std == std else 1.0) + 1e-6 * max(abs(mean), 1e-30)):
                ctx.violation(dict(sig, q="mean"), f"running mean {lm} != mean of all {n} values {mean}", dict(t=t, history_sizes=sorted(sizes)))
            if n > 1 and lstd is not None and not close(lstd, std, 2e-4, tol_abs + 4e-7 * max(abs(std), 1e-30) + 2e-7):
                ctx.violation(dict(sig, q="std"), f"running std {lstd} != sample std of all {n} values {std}", dict(t=t, history_sizes=sorted(sizes)))
            # output = stated transformation of the input, using the library's own eps convention
            eps = torch.finfo(torch.float32).eps
            if n > 1:
                if case["scale"] == "norm":
                    ref = (x_in.double() - mean) / (std + eps)
                else:
                    ref = x_in.double() / (std + eps)
                if std > 0 and mmax / std < 50:
                    err = float(((out.double() - ref).abs() / (ref.abs() + 1.0)).max())
                    if err > 2e-3:
                        ctx.violation(dict(sig, q="output"), f"scaled output deviates from (x-mean)/std resp. x/std by {err}", dict(t=t))
                    ctx.count("scaler_outputs_checked")
                else:
                    ctx.ambiguous += 1
            else:
                if not torch.isnan(out).all() and case["scale"] in ("norm", "scale"):
                    # a single observation has no sample std; the library returns NaN. Anything finite is fine too.
                    pass
        if len(sizes) >= 3 and case["scale"] in ("norm", "scale"):
            ctx.nontrivial_case(case)
        ctx.sample(dict(case=case, final_mean=float(sc.mean) if case["scale"] in ("norm", "scale") else None, n_values=len(allv)))

    elif kind == "ema":
        from rl4co.models.rl.reinforce import baselines as BL

        beta = case["beta"]
        if case["via"] == "cls":
            bl = BL.ExponentialBaseline(beta=beta)
        elif case["via"] == "registry":
            bl = BL.get_reinforce_baseline("exponential", beta=beta)
        else:
            bl = BL.get_reinforce_baseline("mean")
            beta = 0.0
        v = None
        sizes = set()
        kept = []  # the value objects handed out at each call, as a caller keeps them (logged after the epoch, n-step buffers)
        for t in range(case["steps"]):
            r = draw(case["mag"], -5.0 * case["mag"]).reshape(-1)
            # histories whose running average is EXACTLY zero at some point (an all-zero or cancelling first batch; with
            # beta = 0.5 the means 1, -1): zero is a value of the average like any other
            z = case.get("zero")
            if z == "first_zeros" and t == 0:
                r = torch.zeros_like(r)
            elif z == "first_cancel" and t == 0:
                r = torch.tensor([-2.0, 2.0] * max(1, r.numel() // 2))
            elif z == "mid" and t in (0, 1) and beta == 0.5:
                r = torch.full_like(r, 1.0 if t == 0 else -1.0)
            if z and t <= 1:
                ctx.count("ema_exact_zero_histories" if t == 0 else "ema_exact_zero_followups")
            r.requires_grad_(t % 2 == 1)
            sizes.add(r.numel())
            val, loss = bl.eval(None, r)
            ctx.count("ema_calls")
            ctx.evaluation()
            m = float(r.double().mean())
            v = m if v is None else beta * v + (1 - beta) * m
            sig = dict(kind="ema", via=case["via"])
            if not close(float(val), v, 1e-4, 1e-6 * case["mag"]):
                ctx.violation(dict(sig, q="recurrence"), f"EMA value {float(val)} != recurrence {v} at call {t} (beta={beta})", dict(t=t))
            if getattr(val, "requires_grad", False):
                ctx.violation(dict(sig, q="grad"), "baseline value carries gradient", dict(t=t))
            if not (loss == 0):
                ctx.violation(dict(sig, q="loss"), "exponential baseline must have zero loss", dict(t=t))
            kept.append((val, v))
        # the values handed out earlier stay what they were: value t is the average after call t, whatever happened afterwards
        for t, (val_t, v_t) in enumerate(kept):
            ctx.count("ema_kept_values_checked")
            if not close(float(val_t), v_t, 1e-4, 1e-6 * case["mag"]):
                ctx.evaluation()
                ctx.violation(dict(kind="ema", via=case["via"], q="handed_out_value_changed"), f"the baseline value handed out at call {t} was {v_t}; after {len(kept) - 1 - t} later call(s) the same object reads {float(val_t)}", dict(t=t))
                break
        if len(sizes) >= 3:
            ctx.nontrivial_case(case)

    elif kind == "fit_alpha":
        # the warm-up weight as the TRAINING LOOP drives it (REINFORCE.on_train_epoch_end -> baseline.epoch_callback): during epoch e
        # the weight is min(1, e / n), and after a run of E epochs the baseline holds min(1, E / n) (what a checkpoint / resume sees)
        import os
        import shutil
        import tempfile

        import rl4co.models as M
        from rl4co.envs import TSPEnv
        from rl4co.utils.trainer import RL4COTrainer

        torch.set_float32_matmul_precision("highest")
        env = TSPEnv(generator_params=dict(num_loc=6))
        torch.manual_seed(case["s"])
        pol = M.AttentionModelPolicy(env_name="tsp", embed_dim=32, num_encoder_layers=1, num_heads=2)
        n_, E_ = case["n_epochs"], case["max_epochs"]
        model = M.REINFORCE(env, pol, baseline="rollout", baseline_kwargs=dict(n_epochs=n_), batch_size=4, train_data_size=8, val_data_size=4, test_data_size=4)
        seen = []
        o_start = model.on_train_epoch_start

        def on_start():
            seen.append((int(model.current_epoch), float(model.baseline.alpha)))
            return o_start()

        model.on_train_epoch_start = on_start
        d = tempfile.mkdtemp(prefix="verif-c20-")
        cwd = os.getcwd()
        try:
            os.chdir(d)
            tr = RL4COTrainer(matmul_precision="highest", max_epochs=E_, accelerator="cpu", devices=1, logger=False, enable_checkpointing=False, enable_progress_bar=False, enable_model_summary=False,
                              precision="32-true", default_root_dir=d, num_sanity_val_steps=0)
            tr.fit(model)
            alpha_after_fit = float(model.baseline.alpha)
            # the usual sequel: evaluate the trained model with the same trainer (set-up runs again for the test stage)
            tr.test(model, verbose=False)
            alpha_after_test = float(model.baseline.alpha)
        finally:
            os.chdir(cwd)
            shutil.rmtree(d, ignore_errors=True)
            torch.set_float32_matmul_precision("highest")
        ctx.count("warmup_fit_runs")
        sig = dict(kind="fit_alpha")
        for e, a in seen:
            ctx.evaluation()
            ctx.count("warmup_calls")
            if not close(a, min(1.0, e / n_), 1e-9, 1e-12):
                ctx.violation(dict(sig, q="alpha_during_epoch"), f"warm-up weight during epoch {e} is {a}, expected min(1, {e}/{n_})", dict(n_epochs=n_, max_epochs=E_))
                return
        ctx.evaluation()
        if not close(alpha_after_fit, min(1.0, E_ / n_), 1e-9, 1e-12):
            ctx.violation(dict(sig, q="alpha_after_fit"), f"after {E_} epochs the baseline holds warm-up weight {alpha_after_fit}, expected min(1, {E_}/{n_}) (the last epoch's callback)", dict(n_epochs=n_, max_epochs=E_))
            return
        ctx.evaluation()
        if not close(alpha_after_test, alpha_after_fit, 1e-9, 1e-12):
            ctx.violation(dict(sig, q="alpha_after_test"), f"testing the trained model changed the warm-up weight from {alpha_after_fit} to {alpha_after_test}", dict(n_epochs=n_, max_epochs=E_))
            return
        ctx.nontrivial_case(case)
    elif kind == "warmup":
        from rl4co.models.rl.reinforce import baselines as BL

        class Stub(BL.REINFORCEBaseline):
            """inner baseline with known per-row values and a known loss"""

            def __init__(self):
                super().__init__()
                self.cb = []

            def eval(self, td, reward, env=None):
                return reward.detach() * 0.5 + 1.0, torch.tensor(0.25)

            def epoch_callback(self, *a, **kw):
                self.cb.append(kw.get("epoch"))

        inner = Stub()
        n_ep = case["n_epochs"]
        if case["via"] == "cls":
            bl = BL.WarmupBaseline(inner, n_epochs=n_ep, warmup_exp_beta=case["beta"])
        else:
            # registry path ('rollout' = warm-up around the greedy-rollout baseline); the inner baseline is
            # then replaced by the stub with known values so that the combination can be checked exactly
            bl = BL.get_reinforce_baseline("rollout", n_epochs=n_ep, exp_beta=case["beta"])
            assert isinstance(bl, BL.WarmupBaseline)
            bl.baseline = inner
        alpha = 0.0
        v = None
        beta = case["beta"]
        sig = dict(kind="warmup", via=case["via"])
        for e in range(case["epochs"]):
            for j in range(case["per_epoch"]):
                r = draw(1.0, -3.0).reshape(-1)
                val, loss = bl.eval(None, r, None)
                ctx.count("warmup_calls")
                ctx.evaluation()
                m = float(r.double().mean())
                if alpha < 1.0:
                    v = m if v is None else beta * v + (1 - beta) * m
                inner_v = r.double() * 0.5 + 1.0
                if alpha >= 1.0:
                    ref_v, ref_l = inner_v, 0.25
                elif alpha <= 0.0:
                    ref_v, ref_l = torch.full_like(inner_v, v), 0.0
                else:
                    ref_v, ref_l = alpha * inner_v + (1 - alpha) * v, alpha * 0.25
                got = val.double().expand_as(ref_v) if torch.is_tensor(val) else torch.full_like(ref_v, float(val))
                if float((got - ref_v).abs().max()) > 1e-4:
                    ctx.violation(dict(sig, q="convex_value"), f"warm-up value != alpha*b+(1-alpha)*b_exp with alpha={alpha} (epoch {e}, n_epochs {n_ep}); lib alpha={bl.alpha}", dict(e=e, j=j))
                if abs(float(loss) - ref_l) > 1e-5:
                    ctx.violation(dict(sig, q="convex_loss"), f"warm-up loss {float(loss)} != {ref_l} with alpha={alpha}", dict(e=e, j=j))
            reps = 2 if case["repeat_cb"] else 1
            for _ in range(reps):
                bl.epoch_callback(None, None, epoch=e)
                ctx.count("warmup_epoch_callbacks")
            alpha = min(1.0, (e + 1) / n_ep)
            if not close(float(bl.alpha), alpha, 1e-9, 1e-12):
                ctx.violation(dict(sig, q="alpha_schedule"), f"alpha after epoch {e} is {bl.alpha}, expected min(1,(e+1)/n)={alpha} (n_epochs={n_ep})", dict(e=e))
            if inner.cb.count(e) != reps:
                ctx.violation(dict(sig, q="inner_callback"), "inner baseline's epoch callback not forwarded exactly once per call", dict(e=e))
        if case["epochs"] > n_ep and n_ep > 1:
            ctx.nontrivial_case(case)


MANIFEST = {
    "text": "Held after every call along random training histories (batch sizes 1..64, shapes [B]/[B,1]/[B,k], magnitudes "
            "1e-3..1e4, constant batches, up to 1000 calls): RewardScaler's mean/std/output vs float64 statistics of all "
            "values seen; ExponentialBaseline vs its recurrence; WarmupBaseline vs the convex combination and alpha "
            "schedule, through the classes and through get_reinforce_baseline. Exploration over histories. Also: float64 advantages with a large offset, the warm-up weight as driven by real fits (during every epoch and after the run).",
    "note": "Float64 reference over float32 inputs; warm-up checked with in-order epoch callbacks and a stub inner baseline "
            "with known values (the real rollout baseline under warm-up is exercised in C16).",
    "technique": "runtime monitoring: reference-model monitor (float64 recurrences) compared after every call of the real objects",
    "design_ref": "DESIGN.md section 4 / C20",
}
