"""C08 — selection environments pick exactly the quota of distinct, allowed items; live features exact."""
PROPERTY = "C08"
LEVEL = "exploration"
RULE = (
    "case = one batched episode (16 rows) of FLP / MCP / DPP / MDPP (synthetic PDN data) under first/last/uniform "
    "choosers, with per-step snapshots of the features shown to the policy; per finished row: #selected == quota, all "
    "distinct, none forbidden (keep-out / probe), finishing step == quota, and after EVERY step FLP distances / MCP "
    "remaining weights equal the recomputation from the selection so far. Families: generator, mixed quotas per row "
    "(FLP/MCP), hand-built MDPP instances whose action_mask encodes only the keep-out layout (probing ports in the probe map). Non-trivial = distinct (instance, selection order)"
)
ASSUMPTIONS = [
    "DPP/MDPP run on synthetic PDN matrices (real chip data unavailable offline); mask/quota/keep-out logic does not depend on them",
    "MDPP is exercised only at the default 10x10 / 20-decap shape because MDPPEnv keeps the default generator's size and quota",
]
REQUIRED_COUNTERS = ["episodes", "c08_selections_checked", "c08_feature_checks"]
MIN_NONTRIVIAL = {"quick": 2000, "thorough": 20000}
WORKERS = {"quick": 12, "thorough": 16}
BUDGET_S = {"quick": 400, "thorough": 3000}
THOROUGH_ROUNDS = 8


def cases(tier, seed):
    from vlib import envzoo
    import random

    rnd = random.Random(seed * 47 + 8)
    out = []
    reps = 10 if tier == "quick" else 80
    for cfg in envzoo.select_configs(tier):
        for r in range(reps):
            out.append(dict(kind="other", cfg=cfg, family="gen", B=16, s=rnd.randrange(10**6)))
        if cfg["env"] in ("flp", "mcp") and cfg["k"] > 1:
            for r in range(reps // 2):
                out.append(dict(kind="other", cfg=cfg, family="mixed_quota", B=16, s=rnd.randrange(10**6)))
        if cfg["env"] == "flp" and cfg["k"] > 1 and cfg["n"] <= 40 and not cfg.get("dist"):
            for r in range(reps // 2):
                out.append(dict(kind="other", cfg=cfg, family="coincident", B=16, s=rnd.randrange(10**6)))
        if cfg["env"] == "mdpp" or (cfg["env"] == "mcp" and cfg["items"] <= 40):
            for r in range(reps // 2):
                out.append(dict(kind="other", cfg=cfg, family="handbuilt", B=16, s=rnd.randrange(10**6)))
    # every fourth case decodes the same instance object twice without cloning it (evaluate a batch, evaluate it again):
    # the monitors watch the second episode
    for i, c_ in enumerate(out):
        if i % 4 == 3:
            c_["reuse"] = True
            if c_.get("cfg", {}).get("env") in ("flp", "mcp", "dpp", "mdpp", "fjsp", "jssp", "smtwtp"):
                c_["reuse_n"] = [1, 4, 9][(i // 4) % 3]
        elif i % 4 == 1:
            c_["torchrl"] = True  # TorchRL-mode env driven with look-ahead probes
    return out


def run_case(ctx, case):
    from vlib import sweep

    sweep.other_case(ctx, case, {"C08"})


MANIFEST = {
    "text": "Quota / distinctness / forbidden-cell / finishing-step invariants on every finished row and per-step equality of "
            "the live features with their recomputation, over many quotas (1..n), keep-out densities and selection orders. "
            "Exploration over instances x selection orders. Also FLP with 40 / 100 locations.",
    "note": "Recomputations are plain Python over the reset-time snapshot (MCP overwrites membership/weights while stepping).",
    "technique": "runtime monitoring: per-step invariant + recomputation monitor on recorded selection episodes",
    "design_ref": "DESIGN.md section 4 / C08",
}
