"""C06 — the built-in solution checkers agree with the ground-truth problem definitions."""
PROPERTY = "C06"
LEVEL = "exploration"
RULE = (
    "case = one batched mask-confined episode (12 rows, hostile choosers) of an env that ships a checker; each finished row "
    "classified 'clean' by the oracle is a base solution. Evaluations = calls of the real check_solution_validity whose "
    "outcome (raised / returned) is compared with the oracle's classification of the same (instance, action sequence): "
    "the mask solution padded and stripped, feasibility-preserving rewrites (no final depot, doubled/trailing depots, "
    "reordered / reversed / singleton routes, rotations), ~12 single-fault corruptions per base (drop, duplicate, "
    "replace, route merge, swap, move, reverse, append unvisited, remove several), whole-batch calls with exactly one "
    "corrupted row, and calls through get_reward(check_solution=True). Improvement envs: the env's own best tour and "
    "corruptions of the successor array. Non-trivial = distinct (instance, candidate action sequence)"
)
ASSUMPTIONS = [
    "only candidates the oracle certifies beyond tolerance count: float geometry within 1e-4 (relative) of a limit, and "
    "non-rational loads / prizes within 1e-4, are 'ambiguous' (counted, no verdict) so the checkers' own 1e-5 / 1e-6 slack cannot alarm",
    "a checker that crashes (IndexError/RuntimeError) on an infeasible solution counts as having raised",
    "the final TensorDict of the base episode is what the checker receives (as get_reward would pass it)",
    "SVRP: an extra depot visit consumes a technician and is therefore not used as a feasibility-preserving rewrite",
]
REQUIRED_COUNTERS = ["episodes", "c06_accept_checked", "c06_reject_checked", "c06_batch_reject", "c06_get_reward_path"]
MIN_NONTRIVIAL = {"quick": 20000, "thorough": 200000}
WORKERS = {"quick": 14, "thorough": 16}
BUDGET_S = {"quick": 500, "thorough": 3000}


def cases(tier, seed):
    from vlib import envzoo
    from vlib.checker import CHECKED
    import random

    rnd = random.Random(seed * 53 + 6)
    out = []
    sizes = (4, 6, 9) if tier == "quick" else (3, 4, 5, 6, 8, 10, 13, 20, 50)
    reps = 4 if tier == "quick" else 25
    for cfg in envzoo.routing_configs(sizes):
        if cfg["env"] not in CHECKED:
            continue
        for fam in ("gen", "boundary", "degenerate"):
            if fam != "gen" and cfg["env"] == "mtvrp" and cfg.get("preset") not in ("all", "vrpb", "ovrpbltw"):
                continue
            if fam == "boundary" and cfg["env"] in ("tsp", "atsp", "pdp"):
                continue
            for r in range(reps if fam == "gen" else max(1, reps // 2)):
                out.append(dict(kind="routing", cfg=cfg, family=fam, B=12, s=rnd.randrange(10**6)))
    if tier == "quick":
        for cfg in [c for c in envzoo.routing_configs((50,)) if not (c.get("vcap") or c.get("prize_required") or c.get("dense") or c.get("speed"))] + [c for c in envzoo.routing_configs((100,)) if c["env"] in ("tsp", "cvrp", "op")]:
            if cfg["env"] in CHECKED and (cfg["env"] != "mtvrp" or cfg.get("preset") in ("all", "ovrpbltw", "ovrp", "ovrpl")):
                out.append(dict(kind="routing", cfg=cfg, family="gen", B=4, s=rnd.randrange(10**6)))
    for n in ((50, 100) if tier == "quick" else ()):
        out.append(dict(kind="improve", cfg=dict(env="tsp_kopt", n=n, k=2), B=4, s=rnd.randrange(10**6), steps=2))
        out.append(dict(kind="improve", cfg=dict(env="pdp_ruin_repair", n=n), B=4, s=rnd.randrange(10**6), steps=2))
    for n in ((5, 8, 12) if tier == "quick" else (4, 5, 6, 8, 10, 20, 50)):
        for k in (2, 3, 4):
            if k >= n - 1:
                continue
            for r in range(reps):
                out.append(dict(kind="improve", cfg=dict(env="tsp_kopt", n=n, k=k), B=8, s=rnd.randrange(10**6), steps=r % 4))
        ne = n + (n % 2)
        for r in range(reps):
            out.append(dict(kind="improve", cfg=dict(env="pdp_ruin_repair", n=ne), B=8, s=rnd.randrange(10**6), steps=r % 4))
    return out


def run_case(ctx, case):
    from vlib import checker

    if case["kind"] == "routing":
        checker.case(ctx, case)
    else:
        checker.improve_case(ctx, case)


MANIFEST = {
    "text": "Every call of the real check_solution_validity (per row, on batches with one corrupted row, and through "
            "get_reward with check_solution=True) on TSP, ATSP, CVRP, CVRPTW (scaled/unscaled), SDVRP, SVRP, OP, PCTSP, "
            "SPCTSP, PDP (both start modes), 19 MTVRP presets, k-opt TSP and PDP ruin-repair is compared with the "
            "classification of the same candidate by the independent oracle: feasible-with-margin must be accepted, "
            "violated-beyond-tolerance must raise. Candidates: mask-generated solutions, feasibility-preserving "
            "rewrites, single-fault corruptions. Exploration over instances x candidates.",
    "note": "Trusted base: vlib/oracles/routing.py. Candidates inside the tolerance band are counted as ambiguous and decide nothing.",
    "technique": "runtime monitoring: differential oracle on every observed checker call (raised/returned vs independent classification) with fault-injected inputs",
    "design_ref": "DESIGN.md section 4 / C06",
}
