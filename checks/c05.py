"""C05 — the mask never hides a feasible solution: the optimum stays reachable."""
PROPERTY = "C05"
LEVEL = "exploration"
COVERAGE_EXTRA = {"exhaustive": False, "exhaustive_per_instance": "every instance counted in monitor_counters.c05_instances_fully_explored had ALL its mask-admitted histories expanded; the instance space itself is sampled"}
RULE = (
    "case = ONE small instance of one env configuration. The explorer expands the real env breadth-first over EVERY True "
    "bit of the advertised mask (all mask-admitted histories, replayed through env.reset/env.step) and collects all "
    "complete solutions with the library's reward. Independently, all candidate solutions of the problem are enumerated "
    "(permutations x route splits, subsets x orders, k-subsets, op orders x machine choices) and classified by the "
    "oracle. Verdict per instance: every candidate that is feasible with margin (or exactly, on rational/dyadic boundary "
    "instances) must be among the reachable canonical solutions, and max reachable reward must equal the brute-force "
    "optimum. One evaluation per candidate membership test + one per optimum comparison. Non-trivial = distinct instance "
    "explored to completion; exhaustive per instance (the instance space itself is sampled)"
)
ASSUMPTIONS = [
    "canonical form forgets empty routes and the order in which whole routes are listed (except SVRP, where the k-th route belongs to technician k)",
    "candidates whose float constraints are within 1e-4 of their limit are ambiguous (not required to be reachable); rational loads/prizes are exact",
    "SDVRP: only non-splitting candidates (each customer visited once) are required to be reachable; the reachable optimum may be better than them",
    "SVRP: candidates use the technicians in their fixed order without skipping any (the mask lets a technician be skipped only when they can serve nobody - the documented pruning); like SDVRP the reachable optimum may therefore be better than the candidates'",
    "scheduling: optimum compared with the brute-force optimum over semi-active schedules (which contain an optimal schedule); FJSP/JSSP with waits enabled",
    "MDCPDP: canonical form = set of (depot, route) over the non-empty tours; idle depot hops, the order in which vehicles leave and the (unused) depots visited only to end the episode are forgotten. Candidates: every customer order cut into <= D routes, each given to a distinct depot",
]
REQUIRED_COUNTERS = ["c05_sdvrp_split_instances", "c05_sdvrp_instances_with_revisits", "c05_other_size_envs", "c05_instances_fully_explored", "c05_candidates_checked", "c05_optimum_compared", "c05_boundary_instances", "c05_exact_fill_candidates", "c05_semi_active_schedules", "c05_explored_in_company", "c05_ffsp_rule_states"]
MIN_NONTRIVIAL = {"quick": 150, "thorough": 2500}
WORKERS = {"quick": 14, "thorough": 16}
BUDGET_S = {"quick": 600, "thorough": 3300}
THOROUGH_ROUNDS = 2


def cases(tier, seed):
    import random

    rnd = random.Random(seed * 61 + 5)
    out = []
    q = tier == "quick"
    reps = 8 if q else 60

    def add(cfg, fams=("gen",), r=reps):
        for fam in fams:
            for _ in range(r):
                out.append(dict(cfg=cfg, family=fam, s=rnd.randrange(10**6)))

    for n in ((4, 5) if q else (3, 4, 5, 6)):
        add(dict(env="tsp", n=n + 1))
        add(dict(env="atsp", n=n + 1))
        add(dict(env="cvrp", n=n), ("gen", "boundary", "degenerate"))
        add(dict(env="cvrp", n=n, capacity=30), ("gen",))
        add(dict(env="sdvrp", n=n), ("gen", "boundary"))
        if n <= 4:
            add(dict(env="sdvrp", n=n), ("split",), reps * 2)
            add(dict(env="sdvrp", n=3), ("split",), reps)
        add(dict(env="op", n=n), ("gen", "boundary"))
        add(dict(env="pctsp", n=n), ("gen", "boundary"))
        add(dict(env="spctsp", n=n), ("gen",), max(1, reps // 2))
        add(dict(env="svrp", n=n), ("gen", "boundary"))  # boundary: integer skill levels, requirement == technician's level (allowed)
        add(dict(env="mtsp", n=n + 1, cost_type="minmax", agents=(2, 3)))
        add(dict(env="mtsp", n=n + 1, cost_type="sum", agents=(2, 2)), ("gen",), max(1, reps // 2))
        add(dict(env="cvrptw", n=n, scale=False), ("gen", "boundary"))
        add(dict(env="cvrptw", n=n, scale=True), ("gen",), max(1, reps // 2))
        for p in ("cvrp", "vrpb", "vrpl", "ovrp", "vrptw", "ovrpbltw", "vrpbltw", "all"):
            add(dict(env="mtvrp", n=n, preset=p), ("gen", "boundary") if p in ("cvrp", "vrpb", "all", "vrptw", "vrpbltw", "ovrpbltw") else ("gen",), max(1, reps // 2))
    # vehicle speed != 1 and windows that close right after the exact arrival along a chain of customers
    for n in ((4, 5) if q else (3, 4, 5, 6)):
        for p_, sp in (("vrptw", 2.0), ("ovrptw", 0.5), ("vrpbltw", 2.0), ("vrptw", None)):
            cfg_ = dict(env="mtvrp", n=n, preset=p_)
            if sp is not None:
                cfg_["speed"] = sp
            add(cfg_, ("gen", "chain"), max(1, reps // 2))
    for n in ((4, 6) if q else (4, 6)):
        add(dict(env="pdp", n=n, start_depot=False))
        add(dict(env="pdp", n=n, start_depot=True))
    for n, modes in ((4, (("minmax", "close", "L2", 2), ("lateness", "open", "L1", 3), ("minsum", "close", "L2", 1), ("minsum", "open", "L2", 2), ("lateness", "close", "L2", 2))),
                     (6, (("minmax", "close", "L2", 2), ("minsum", "open", "L1", 3), ("lateness", "close", "L2", 3), ("minmax", "open", "L2", 2)))):
        for rm, pm, dm, dep in modes:
            add(dict(env="mdcpdp", n=n, reward_mode=rm, problem_mode=pm, dist_mode=dm, depots=dep), ("gen",), max(1, reps // 2))
    # env constructed for another size than the instances explored (smaller and larger), size-agnostic envs
    for n in (4, 5):
        for env_n in (3, 10):
            for cfg_ in (dict(env="tsp", n=n + 1), dict(env="cvrp", n=n), dict(env="sdvrp", n=n), dict(env="op", n=n), dict(env="svrp", n=n), dict(env="cvrptw", n=n, scale=False),
                         dict(env="mtvrp", n=n, preset="all"), dict(env="mtvrp", n=n, preset="vrpb")):
                for fam in (("gen", "boundary") if cfg_["env"] in ("cvrp", "sdvrp") else ("gen",)):
                    for _ in range(max(1, reps // 4)):
                        out.append(dict(cfg=cfg_, family=fam, s=rnd.randrange(10**6), env_n=env_n))
    # every other routing instance is explored with a second, different instance sitting at row 0 of the batch
    for i, c_ in enumerate(out):
        if i % 2 == 1:
            c_["companion"] = True
    # scheduling
    for (j, m, lo, hi) in ([(2, 2, 1, 2), (3, 2, 1, 2)] if q else [(2, 2, 1, 2), (3, 2, 1, 2), (2, 3, 2, 3), (3, 2, 2, 2)]):
        add(dict(env="fjsp", jobs=j, mas=m, min_ops=lo, max_ops=hi, mask_no_ops=False, n=j * hi, pmax=5))
        add(dict(env="jssp", jobs=j, mas=m, one2one=True, mask_no_ops=False, n=j * m, pmax=5))
    # horizons beyond the env's 9999 "not scheduled yet" marker on enumerable instances
    add(dict(env="fjsp", jobs=2, mas=2, min_ops=1, max_ops=2, mask_no_ops=False, n=4, pmin=4000, pmax=9000), ("gen",), max(2, reps // 2))
    add(dict(env="jssp", jobs=3, mas=2, one2one=True, mask_no_ops=False, n=6, pmin=3000, pmax=6000), ("gen",), max(2, reps // 2))
    for (s_, k, j) in ([(2, 2, 2), (2, 2, 3)] if q else [(2, 2, 2), (2, 2, 3), (2, 3, 3), (3, 2, 2)]):
        add(dict(env="ffsp", stages=s_, mas=k, jobs=j, flatten=True, n=j * s_, tmax=3))
    for n in ((4, 5) if q else (3, 4, 5, 6, 7)):
        add(dict(env="smtwtp", n=n))
    for n, k in ([(6, 2), (7, 3)] if q else [(5, 2), (6, 2), (7, 3), (8, 4), (8, 1)]):
        add(dict(env="flp", n=n, k=k))
    for items, sets, k in ([(8, 5, 2), (10, 6, 3)] if q else [(8, 5, 2), (10, 6, 3), (12, 8, 3), (9, 5, 1)]):
        add(dict(env="mcp", n=sets, items=items, k=k))
    return out


def run_case(ctx, case):
    from vlib import c05impl

    c05impl.case(ctx, case)


MANIFEST = {
    "text": "Per small instance (routing <= 6 customers, MDCPDP with 1-3 depots, incl. exact-arithmetic boundary instances where loads fill the vehicle "
            "and prizes reach the requirement exactly; FJSP/JSSP/FFSP <= 3 jobs x 2-3 machines; SMTWTP <= 7 jobs; FLP/MCP <= 8 "
            "items) ALL mask-admitted histories of the real env are expanded and the resulting solution set is compared "
            "with the brute-force feasible set and optimum from the independent oracle: nothing feasible-with-margin may "
            "be missing, the best reachable reward must equal the brute-force optimum. Exhaustive per instance; "
            "instances are sampled. Also: envs constructed for another size than the explored instances; SDVRP split deliveries - on dyadic 'split' instances the set of mask-admitted histories must contain every history of the documented delivery rule (exact-arithmetic enumeration) and reach its optimum.",
    "note": "Trusted base: vlib/explore.py (enumerators, canonical forms, semi-active schedulers) and vlib/oracles. "
            "An instance whose exploration hit the node budget is inconclusive for that instance and counted separately.",
    "technique": "runtime monitoring: exhaustive execution of the real env over all mask-admitted histories of small instances, compared with a brute-force reference enumeration",
    "design_ref": "DESIGN.md section 4 / C05",
}
MANIFEST["text"] += ' Rounds 7-8: SVRP integer-skill boundary instances; on FFSP every state the explorer steps into is compared with the documented dispatch rule (which jobs / idling are offered).'
