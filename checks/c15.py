"""C15 — augmentation preserves costs; evaluation reports true best-of-k results."""
PROPERTY = "C15"
LEVEL = "exploration"
RULE = (
    "augment cases: StateAugmentation (dihedral8 with 8 copies; symmetric with 2..16 copies; first_aug_identity default, and "
    "False as its own labelled configuration) on uniform / clustered / unit-square-border coordinate sets: for every copy "
    "of every instance the pairwise distance matrix equals the original's (1e-5), a fixed random tour costs the same, copy "
    "0 is the original, non-coordinate features follow row r = copy r//B of instance r%B, the input is untouched. eval "
    "cases: the real evaluate_policy for greedy / sampling / multistart_greedy / augment / augment_dihedral_8 / "
    "multistart_greedy_augment(_dihedral_8) on tsp, cvrp, pctsp (and op without forced starts) with loader batch sizes "
    "dividing the dataset or not, under a tap on the policy call: per instance the reported reward must equal the "
    "independent objective of the returned actions on the ORIGINAL instance, the solution must be feasible, and the reward "
    "must equal the maximum over that instance's candidate rollouts recorded inside the same call (re-scored on the "
    "original instance); for sampling the same random stream is replayed with select_best=False to see all samples. model_val "
    "cases: POMO / SymNCO shared_step(val|test) for several (num_starts, num_augment): the per-instance max_reward / "
    "max_aug_reward and best actions must be the maxima over that instance's own rollouts. One evaluation per augmented copy / per evaluated instance; non-trivial = distinct case rows"
)
ASSUMPTIONS = [
    "eval candidates are re-scored with the independent objective on the original instance; infeasible candidates are not eligible as 'best'",
    "OP is evaluated only with methods that do not force start nodes (the OP start rule is a recorded C12 finding)",
    "sampling with select_best happens inside the policy call (covered by C12's tap); here its returned reward is checked against the returned actions",
]
REQUIRED_COUNTERS = ["c15_augment_history_calls", "c15_never_worse_than_greedy_checks", "c15_evaluator_reuse_calls", "c15_augment_calls", "c15_copies_checked", "c15_eval_calls", "c15_eval_rows", "c15_candidates", "c15_sampling_replays", "c15_model_val_rows"]
MIN_NONTRIVIAL = {"quick": 1500, "thorough": 6000}
WORKERS = {"quick": 14, "thorough": 16}
BUDGET_S = {"quick": 500, "thorough": 3000}
THOROUGH_ROUNDS = 8


def cases(tier, seed):
    import random

    rnd = random.Random(seed * 103 + 15)
    out = []
    q = tier == "quick"
    for ck in ("uniform", "clustered", "border"):
        for B in ((1, 3, 5) if q else (1, 2, 3, 5, 8)):
            for n in ((5, 20) if q else (3, 5, 10, 20, 50)):
                out.append(dict(kind="augment", coords=ck, B=B, n=n, A=8, fam="dihedral8", s=rnd.randrange(10**6)))
                for A in ((2, 4, 8, 16) if q else (2, 3, 4, 5, 8, 12, 16)):
                    out.append(dict(kind="augment", coords=ck, B=B, n=n, A=A, fam="symmetric", s=rnd.randrange(10**6)))
                out.append(dict(kind="augment", coords=ck, B=B, n=n, A=4, fam="symmetric", first_aug_identity=False, s=rnd.randrange(10**6)))
    # earlier calls in the same process with the same number of augmented rows but other factors / options
    for ck in ("uniform", "border"):
        for (B, A, before) in ((16, 2, [(4, 8, True)]), (8, 4, [(4, 8, True)]), (8, 2, [(2, 8, True), (4, 4, False)]), (4, 4, [(4, 4, False)]), (3, 4, [(6, 2, True), (2, 6, True)])):
            for r in range(1 if q else 3):
                out.append(dict(kind="augment", coords=ck, B=B, n=rnd.choice([5, 10]), A=A, fam="symmetric", before=before, s=rnd.randrange(10**6)))
    methods = ["greedy", "sampling", "multistart_greedy", "augment", "augment_dihedral_8", "multistart_greedy_augment", "multistart_greedy_augment_dihedral_8"]
    for env in ("tsp", "cvrp", "pctsp", "op"):
        for m in methods:
            for (N, bs) in (((7, 3), (6, 6), (5, 8)) if q else ((7, 3), (6, 6), (5, 8), (16, 5), (9, 2))):
                for r in range(2 if q else 4):
                    out.append(dict(kind="eval", env=env, n=rnd.choice([6, 8]), N=N, bs=bs, method=m, s=rnd.randrange(10**6), A=8 if "dihedral" in m else rnd.choice([2, 4, 8]), k=rnd.choice([3, 5])))
    # envs whose constructor arguments change the dynamics or the objective, and envs whose reward is read from the rollout's
    # final state: the evaluator's own env (not a default-constructed one) must define both the rollout and the reported value
    single = ["greedy", "augment", "augment_dihedral_8"]
    # (mTSP min-max is not run: its reward lives in the rollout state, the evaluators' re-scoring on the reset state raises KeyError - a crash, see DESIGN 9b/26)
    extra_envs = [("mtsp", dict(cost_type="sum"), single),
                  ("mdcpdp", dict(reward_mode="minsum", problem_mode="close"), single + ["sampling"]), ("mdcpdp", dict(reward_mode="minmax", problem_mode="open"), single + ["sampling"]),
                  ("pdp", dict(start_depot=True), methods), ("sdvrp", {}, methods), ("svrp", {}, single + ["sampling"]), ("mtvrp", dict(preset="all"), methods), ("spctsp", {}, methods)]
    for env, extra, ms in extra_envs:
        for m in ms:
            for (N, bs) in (((7, 3),) if q else ((7, 3), (6, 6), (5, 8))):
                out.append(dict(kind="eval", env=env, extra=extra, n=rnd.choice([6, 8]), N=N, bs=bs, method=m, s=rnd.randrange(10**6), A=8 if "dihedral" in m else rnd.choice([2, 4, 8]), k=rnd.choice([3, 5])))
    # evaluator objects reused across data sets
    for env in ("tsp", "cvrp"):
        for cls_name in ("GreedyEval", "AugmentationEval", "SamplingEval", "GreedyMultiStartEval", "GreedyMultiStartAugmentEval"):
            for r in range(1 if q else 3):
                out.append(dict(kind="evaluator_reuse", env=env, n=rnd.choice([6, 8]), evaluator=cls_name, sizes=[rnd.choice([5, 6]), rnd.choice([3, 4]), 2], bs=rnd.choice([2, 3, 8]), A=rnd.choice([2, 4]), s=rnd.randrange(10**6)))
    for model, grid in (("pomo", ((3, 8), (5, 8), (4, 1), (3, 0), (5, 0))), ("symnco", ((0, 4), (4, 4), (3, 2), (5, 2), (6, 1), (4, 0)))):
        for (S, A) in grid:
            for env in ("tsp", "cvrp"):
                for B in ((2, 5) if q else (1, 2, 3, 5)):
                    for r in range(1 if q else 3):
                        out.append(dict(kind="model_val", model=model, env=env, n=rnd.choice([6, 8]), B=B, S=S, A=A, s=rnd.randrange(10**6), phase=rnd.choice(["val", "test"])))
    return out


def run_case(ctx, case):
    from vlib import c15impl

    {"augment": c15impl.augment_case, "eval": c15impl.eval_case, "model_val": c15impl.model_val_case, "evaluator_reuse": c15impl.evaluator_reuse_case}[case["kind"]](ctx, case)


MANIFEST = {
    "text": "Held on every observed augmentation call (both families, 2-16 copies, three coordinate regimes incl. the unit-square "
            "border) and on every instance of every observed evaluate_policy call (7 methods x 4 envs x loader batch sizes "
            "dividing or not): isometry and cost preservation per copy, identity first copy, reported reward = independent "
            "objective of the returned actions on the original instance = maximum over the instance's own candidate rollouts "
            "tapped in the same call. Exploration over coordinate sets x factors x methods x loader chunkings. Also: envs with constructor-dependent dynamics / objectives and state-read rewards (mTSP sum, MDCPDP, PDP start-at-depot, SDVRP, SVRP, MTVRP, SPCTSP), evaluator objects reused across data sets.",
    "note": "first_aug_identity=False is run as a separately labelled configuration.",
    "technique": "runtime monitoring: isometry/cost invariants on every augmented copy + tap on the policy call inside evaluate_policy with independent re-scoring of all candidates",
    "design_ref": "DESIGN.md section 4 / C15",
}
