#!/venv/bin/python
"""Entry point: ./check <ID> [--tier quick|thorough] [--replay file] [--workers N]

Parent mode: builds the case list, shards it over worker subprocesses (each importing the
rl4co working tree afresh), merges monitor observations, classifies, writes evidence.
Worker mode (--shard i/n --out f): runs its share in-process and dumps observations.
"""
import argparse
import importlib
import json
import os
import subprocess
import sys
import tempfile
import time

ROOT = os.path.dirname(os.path.abspath(__file__))
sys.path.insert(0, ROOT)
os.environ.setdefault("PYTHONHASHSEED", "0")


def repo_path():
    return os.environ.get("VERIF_REPO", "/repo")


def setup_paths():
    rp = repo_path()
    if rp not in sys.path:
        sys.path.insert(0, rp)  # beats the editable install -> scratch copies for mutants
    deps = os.path.join(ROOT, ".deps")
    if os.path.isdir(deps) and deps not in sys.path:
        sys.path.append(deps)


def main():
    ap = argparse.ArgumentParser()
    ap.add_argument("prop")
    ap.add_argument("--tier", default=os.environ.get("VERIF_TIER", "quick"))
    ap.add_argument("--seed", type=int, default=int(os.environ.get("VERIF_SEED", "0")))
    ap.add_argument("--workers", type=int, default=int(os.environ.get("VERIF_WORKERS", "0")))
    ap.add_argument("--shard", default=None)
    ap.add_argument("--out", default=None)
    ap.add_argument("--replay", default=None)
    ap.add_argument("--budget", type=float, default=None, help="seconds per worker (soft)")
    ap.add_argument("--no-evidence", action="store_true")
    a = ap.parse_args()

    setup_paths()
    os.environ["RL4CO_VERIF"] = "1"
    import warnings

    warnings.filterwarnings("ignore")
    import logging

    logging.disable(logging.WARNING)

    from vlib import core

    prop = a.prop.upper()
    # reach audit (tools/cov_audit.py): VERIF_COV=<dir> records which lines/branches of the tree under test the workload executes
    cov = None
    if os.environ.get("VERIF_COV") and (a.shard or a.replay or a.workers == 1):
        import coverage

        os.makedirs(os.environ["VERIF_COV"], exist_ok=True)
        cov = coverage.Coverage(data_file=os.path.join(os.environ["VERIF_COV"], ".coverage"), data_suffix=True, branch=True,
                                include=[os.path.join(repo_path(), "rl4co", "*")])
        cov.start()
        import atexit

        atexit.register(lambda: (cov.stop(), cov.save()))
    mod = importlib.import_module(f"checks.{prop.lower()}")

    if a.replay:
        with open(a.replay) as f:
            rp = json.load(f)
        d = core.run_cases_inproc(mod, a.tier, a.seed, [rp["case"]])
        merged = core.merge([d])
        return core.finish(mod, a.tier, a.seed, merged, 0.0, [], write_evidence=False, replay=True)

    # thorough tier: the check's case grid is instantiated THOROUGH_ROUNDS times with independent derived seeds (more
    # instances / histories per configuration); every case descriptor carries its own seed, so replays are unaffected
    rounds = int(os.environ.get("VERIF_ROUNDS", "0")) or (getattr(mod, "THOROUGH_ROUNDS", 1) if a.tier == "thorough" else 1)
    cases = []
    for k in range(rounds):
        cases += mod.cases(a.tier, a.seed + 1000003 * k)
    if a.tier == "thorough" and not a.replay:
        # a budget-bound thorough run stops at its deadline: visit the case grid in a (seed-determined) shuffled order so that the
        # cut samples every workload family instead of dropping whatever the check lists last
        import random as _random

        _random.Random(a.seed * 7919 + 13).shuffle(cases)

    if a.shard:
        i, n = map(int, a.shard.split("/"))
        mine = cases[i::n]
        deadline = time.time() + a.budget if a.budget else None
        d = core.run_cases_inproc(mod, a.tier, a.seed, mine, deadline)
        with open(a.out, "w") as f:
            json.dump(d, f, default=str)
        return 0

    t0 = time.time()
    budget = a.budget or getattr(mod, "BUDGET_S", {}).get(a.tier, 600 if a.tier == "quick" else 3600)
    nw = a.workers or min(getattr(mod, "WORKERS", {}).get(a.tier, 8), os.cpu_count() or 1, max(1, len(cases)))
    failed = []
    dumps = []
    if nw <= 1:
        dumps.append(core.run_cases_inproc(mod, a.tier, a.seed, cases, time.time() + budget))
    else:
        tmpd = tempfile.mkdtemp(prefix="verif-shards-")
        procs = []
        env = dict(os.environ)
        env["OMP_NUM_THREADS"] = "1"
        env["MKL_NUM_THREADS"] = "1"
        for i in range(nw):
            out = os.path.join(tmpd, f"s{i}.json")
            log = open(os.path.join(tmpd, f"s{i}.log"), "w")
            cmd = [sys.executable, os.path.abspath(__file__), prop, "--tier", a.tier, "--seed", str(a.seed),
                   "--shard", f"{i}/{nw}", "--out", out, "--budget", str(budget)]
            procs.append((i, out, log, subprocess.Popen(cmd, stdout=log, stderr=subprocess.STDOUT, env=env, cwd=ROOT)))
        hard = t0 + budget * 1.5 + 120  # watchdog: firing is inconclusive, never a violation
        for i, out, log, p in procs:
            try:
                p.wait(timeout=max(1, hard - time.time()))
            except subprocess.TimeoutExpired:
                p.kill()
                failed.append(f"shard {i} watchdog")
                continue
            finally:
                log.close()
            if p.returncode != 0 or not os.path.exists(out):
                tail = open(os.path.join(tmpd, f"s{i}.log")).read()[-1500:]
                failed.append(f"shard {i} rc={p.returncode}: {tail}")
                continue
            with open(out) as f:
                dumps.append(json.load(f))
        import shutil

        shutil.rmtree(tmpd, ignore_errors=True)
    merged = core.merge(dumps) if dumps else core.merge([])
    rc = core.finish(mod, a.tier, a.seed, merged, time.time() - t0, failed, write_evidence=not a.no_evidence)
    return rc


if __name__ == "__main__":
    sys.exit(main())
